"""Segment inventory (DESIGN.md §2.3). Each entry: where the text comes from, the signature of the
KEnv method it becomes, and the (few) textual rewrites that replace awaited environment calls by
synchronous shims."""
SEGMENTS = {}
