"""Segment inventory (DESIGN.md §2.3).

Each entry names where the text comes from (file, fn, optional scope/anchors), the signature of the
KEnv method it becomes, the environment calls that are replaced by synchronous shims
(`await_calls`: self.NAME(..)[.await] -> self.k_NAME(..)) and the few extra textual rewrites.
Everything else is /repo's text, verbatim.
"""

EPI = "\n        self.passed.set(true);\n"

SEGMENTS = {
    # ---- request validation prologues: text up to (not including) the first awaiting statement
    "W0": dict(
        file="src/dev/write.rs", fn="__write_at", start="PROLOGUE",
        sig="pub(crate) fn seg_w0(&self, buf: KBuf, mut offset: u64) -> Qcow2Result<()>",
        post=EPI + "        self.out.set([single as u64, len as u64, offset, 0, 0, 0]);\n        Ok(())",
    ),
    "R0": dict(
        file="src/dev/read.rs", fn="__read_at", start="PROLOGUE",
        sig="pub(crate) fn seg_r0(&self, mut buf: KBuf, mut offset: u64) -> Qcow2Result<usize>",
        post=EPI + "        self.out.set([single as u64, len as u64, offset, extra as u64, buf.len() as u64, 0]);\n        Ok(0)",
    ),
    "D0": dict(
        file="src/dev/discard.rs", fn="discard", start="PROLOGUE",
        sig="pub(crate) fn seg_d0(&self, virtual_offset: u64, len: u64) -> Qcow2Result<()>",
        post=EPI + "        self.out.set([start, stop, guest, cluster_size, 0, 0]);\n        Ok(())",
    ),
    # ---- whole request functions with the awaited lookups / per-cluster operations shimmed
    "WF": dict(
        file="src/dev/write.rs", fn="__write_at", start="FULL",
        sig="pub(crate) fn seg_wf(&self, buf: KBuf, mut offset: u64) -> Qcow2Result<()>",
        await_calls=["populate_single_write_mapping", "populate_write_mappings", "do_write"],
        rewrites=[
            (r"let writes = FuturesUnordered::new\(\);", "let mut writes = KVec::new();"),
            (r"let res: Vec<_> = writes\.collect\(\)\.await;", "let res = writes;"),
        ],
    ),
    "RF": dict(
        file="src/dev/read.rs", fn="__read_at", start="FULL",
        sig="pub(crate) fn seg_rf(&self, mut buf: KBuf, mut offset: u64) -> Qcow2Result<usize>",
        await_calls=["get_l2_entry", "get_l2_entries", "do_read"],
        rewrites=[
            (r"Vec::with_capacity\(nr_clusters\)", "KVec::new()", 2),
            (r"futures::future::join_all\(reads\)\.await", "reads"),
        ],
    ),
    "DF": dict(
        file="src/dev/discard.rs", fn="discard", start="FULL",
        sig="pub(crate) fn seg_df(&self, virtual_offset: u64, len: u64) -> Qcow2Result<()>",
        await_calls=["__discard_one_cluster"],
    ),
    "D1": dict(
        file="src/dev/discard.rs", fn="__discard_one_cluster", start="FULL",
        sig="pub(crate) fn seg_d1(&self, guest_offset: u64) -> Qcow2Result<()>",
        await_calls=["get_l1_entry", "get_l2_slice", "free_clusters", "call_fallocate"],
        rewrites=[(r"\.write\(\)\.await", ".kwrite()")],
        pre="        self.passed.set(false);",
    ),
    # ---- allocator steps
    "A1": dict(
        file="src/dev/alloc.rs", fn="try_alloc_from_rb_slice", start="FULL",
        sig="pub(crate) fn seg_a1(&self, rt_e: &RefTableEntry, cls: &HostCluster, count: usize, fixed_start: bool) -> Qcow2Result<Option<(u64, usize)>>",
        await_calls=["get_refblock"],
        rewrites=[(r"\.write\(\)\.await", ".kwrite()")],
    ),
    "A0": dict(
        file="src/dev/alloc.rs", fn="free_clusters", start="FULL",
        sig="pub(crate) fn seg_a0(&self, mut host_cluster: u64, mut count: usize) -> Qcow2Result<()>",
        await_calls=["get_reftable_entry", "get_refblock"],
        rewrites=[(r"\.write\(\)\.await", ".kwrite()")],
    ),
    # ---- release of a replaced compressed cluster (do_write_cow, Ok arm, `if compressed {..}`)
    "X0": dict(
        file="src/dev/write.rs", fn="do_write_cow", scope=[r"Ok\(_\) => \{", r"if compressed \{"], start="FULL",
        sig="pub(crate) fn seg_x0(&self, mapping: &Mapping) -> Qcow2Result<()>",
        pre="        let info = &self.info;",
        await_calls=["free_clusters"],
        post="        Ok(())",
    ),
    # ---- geometry of the compressed-cluster read request (before the bounce buffer is allocated)
    "C0": dict(
        file="src/dev/read.rs", fn="do_read_compressed", start="PROLOGUE", end=r"let mut _compressed_data",
        sig="pub(crate) fn seg_c0(&self, mapping: Mapping, off_in_cls: usize, buf: KBuf) -> Qcow2Result<usize>",
        post=EPI + "        self.out.set([aligned_off, pad as u64, aligned_len as u64, compressed_offset, compressed_length as u64, bs as u64]);\n        Ok(0)",
    ),
    # ---- top-table flush: dirty block -> (offset, length) request; key window of the child slices
    "K1": dict(
        file="src/dev/cache.rs", fn="flush_top_table", start="FULL",
        sig="pub(crate) fn seg_k1<B: Table>(&self, rt: &B) -> Qcow2Result<()>",
        await_calls=["flush_table"],
        rewrites=[(r"self\.k_flush_table\(", "self.k_flush_table_q(")],
    ),
    "K0": dict(
        parts=[
            dict(fn="rb_slice_key_of_rt_off", sig="pub(crate) fn seg_k0_rb(&self, off: u64) -> usize"),
            dict(fn="l2_slice_key_of_l1_off", sig="pub(crate) fn seg_k0_l2(&self, off: u64) -> usize"),
        ],
        file="src/dev/cache.rs", start="FULL",
    ),
    "K2": dict(
        file="src/dev/cache.rs", fn="flush_meta_generic", start="FULL",
        sig="pub(crate) fn seg_k2<A: Table + std::fmt::Debug, F>(&self, rt: &A, key_fn: F) -> Qcow2Result<bool> where F: Fn(u64) -> usize",
        await_calls=["flush_cache", "call_fsync"], await_calls_opt=["flush_table", "flush_top_table"],
        rewrites=[(r"self\.k_flush_cache\(cache, ", "self.k_flush_cache_q("),
                  (r"self\.k_flush_table\(", "self.k_flush_table_q(", 0),
                  (r"self\.k_call_fsync\(", "self.k_call_fsync_q(")],
    ),
    # ---- header write
    "H0": dict(
        file="src/dev/cache.rs", fn="commit_header", start="FULL",
        sig="pub(crate) fn seg_h0<F>(&self, h: &mut Qcow2Header, rollback: F) -> Qcow2Result<()> where F: FnOnce(&mut Qcow2Header)",
        await_calls=["call_write"], await_calls_opt=["call_read"],
        rewrites=[(r"self\.k_call_write\(", "self.k_call_write_q("), (r"self\.k_call_read\(", "self.k_call_read_q(", 0)],
    ),
    # ---- refcount-table growth: the argument list handed to RefTable::clone_and_grow
    "G0": dict(
        file="src/dev/alloc.rs", fn="ensure_refblock_offset", start=r"if !reftable\.in_bounds\(rt_index\)",
        sig="pub(crate) fn seg_g0(&self, reftable: &mut RefTable, rt_index: usize, rt_clusters: usize) -> Qcow2Result<()>",
        pre="        let info = &self.info;",
        await_calls=["grow_reftable"],
        post="        Ok(())",
    ),
    # ---- read prologue once more, over a REAL caller buffer (content observable)
    "RB": dict(
        file="src/dev/read.rs", fn="__read_at", start="PROLOGUE",
        sig="pub(crate) fn seg_rb(&self, buf: &mut [u8], mut offset: u64) -> Qcow2Result<usize>",
        post=EPI + "        self.out.set([single as u64, len as u64, offset, extra as u64, buf.len() as u64, 0]);\n        Ok(0)",
    ),
    # ---- mapping creation steps
    "L0": dict(
        file="src/dev/write.rs", fn="ensure_l2_offset", start=r"let allocated = self\.allocate_cluster\(\)", end="END",
        sig="pub(crate) fn seg_l0(&self, l1_table: &mut L1Table, l1_index: usize) -> Qcow2Result<L1Entry>",
        pre="        let info = &self.info;",
        await_calls=["allocate_cluster", "mark_new_cluster"],
    ),
    "L1": dict(
        file="src/dev/write.rs", fn="alloc_and_map_cluster", start="FULL",
        sig="pub(crate) fn seg_l1(&self, split: &SplitGuestOffset, l2_table: &mut L2Table) -> Qcow2Result<Mapping>",
        await_calls=["allocate_cluster", "mark_new_cluster"],
    ),
    "M1": dict(
        file="src/dev/write.rs", fn="make_single_write_mapping", start="FULL",
        sig="pub(crate) fn seg_m1(&self, virt_off: u64) -> Qcow2Result<L2Entry>",
        await_calls=["ensure_l2_offset", "get_l2_slice", "alloc_and_map_cluster"],
        rewrites=[(r"\.write\(\)\.await", ".kwrite()")],
    ),
    "M0": dict(
        file="src/dev/write.rs", fn="__make_multiple_write_mapping", start="FULL", parent="src/dev/write.rs",
        sig="pub(crate) fn seg_m0(&self, start: u64, end: u64, l2_entries: &mut KVec<L2Entry>) -> Qcow2Result<usize>",
        await_calls=["ensure_l2_offset", "get_l2_slice", "allocate_clusters", "allocate_cluster", "mark_new_cluster"],
        rewrites=[(r"\.write\(\)\.await", ".kwrite()"),
                  (r"\bSelf::need_make_mapping\(", "Qcow2Dev::<super::verif_write::KIo>::need_make_mapping(", 2)],
    ),
    # ---- batch L2 lookup of the multi-cluster read path
    "GE": dict(
        file="src/dev/read.rs", fn="get_l2_entries", start="FULL",
        sig="pub(crate) fn seg_ge(&self, off: u64, len: usize) -> Qcow2Result<KVec<L2Entry>>",
        await_calls=["get_l1_entry", "get_l2_slice_slow"],
        rewrites=[
            (r"\.read\(\)\.await", ".kread()", 2),
            (r"Vec::with_capacity\(\(\(end - start\) as usize\) >> info\.cluster_bits\(\)\)", "KVec::new()"),
        ],
    ),
    # ---- cross-slice allocation with fragment retry
    "T0": dict(
        file="src/dev/alloc.rs", fn="try_allocate_from", start="FULL",
        sig="pub(crate) fn seg_t0(&self, mut host_cluster: u64, alloc_cnt: usize) -> Qcow2Result<Option<(u64, usize)>>",
        await_calls=["ensure_refblock_offset", "try_alloc_from_rb_slice", "free_clusters"],
    ),
    # ---- header construction inside the formatter (child of meta::header: private raw header)
    "F1": dict(
        file="src/meta/header.rs", fn="format_qcow2", parent="src/meta/header.rs",
        start=r"let l2_entries = ", end=r"let vec = h\.serialize_vec",
        sig="pub(crate) fn seg_f1(&self, size: u64, cluster_bits: usize, refcount_order: u8, rc_table: (u64, u32), l1_table: (u64, u32)) -> Qcow2RawHeader",
        pre="        let cluster_size = 1usize << cluster_bits;",
        rewrites=[(r"\bSelf::", "Qcow2Header::")],
        forbid=[],
        post="        h",
    ),
    # ---- loading / creating a cached slice
    "S0": dict(
        file="src/dev/alloc.rs", fn="add_cache_slice", start="FULL",
        sig="pub(crate) fn seg_s0<B: Table + std::fmt::Debug, E: TableEntry>(&self, cache: &KSlot<B>, top_e: &E, key: usize, slice_off: usize, slice: B) -> Qcow2Result<Option<()>>",
        await_calls=["cluster_is_new", "call_read"],
        rewrites=[(r"AsyncRwLock::new\(slice\)", "KLock::new(slice)"), (r"\.write\(\)\.await", ".kwrite()")],
    ),
    # ---- hole punch with zero-write fallback
    "F0": dict(
        file="src/dev/cache.rs", fn="call_fallocate", start="FULL",
        sig="pub(crate) fn seg_f0(&self, offset: u64, len: usize, flags: u32) -> Qcow2Result<()>",
        await_calls=["call_write"],
        rewrites=[(r"self\.file\.fallocate\(offset, len, flags\)\.await", "self.k_file_fallocate(offset, len, flags)"),
                  (r"self\.k_call_write\(", "self.k_call_write_q(")],
        forbid=[],
    ),
    # ---- creation of a new refcount block (tail of ensure_refblock_offset)
    "E0": dict(
        file="src/dev/alloc.rs", fn="ensure_refblock_offset", start=r"let refblock_offset = \(rt_index as u64\)", end="END",
        sig="pub(crate) fn seg_e0(&self, reftable: &mut RefTable, cls: &HostCluster, rt_index: usize) -> Qcow2Result<RefTableEntry>",
        pre="        let info = &self.info;",
        await_calls=["mark_new_cluster", "add_rb_slice"],
    ),
    # ---- copy-on-write merges
    "B0": dict(
        parts=[
            dict(fn="do_compressed_cow",
                 sig="pub(crate) fn seg_b0c(&self, off_in_cls: usize, buf: &[u8], host_off: u64, compressed_mapping: &Mapping) -> Qcow2Result<()>",
                 await_calls=["do_read_compressed", "call_write"]),
            dict(fn="do_back_cow",
                 sig="pub(crate) fn seg_b0b(&self, virt_off: u64, off_in_cls: usize, buf: &[u8], host_off: u64) -> Qcow2Result<()>",
                 await_calls=["call_write"],
                 rewrites=[(r"backing\s*\.read_at\(&mut cbuf, (.*?)\)\s*\.await\?", r"self.k_backing_read(&mut cbuf, \1)?"),
                           (r"self\.k_call_write\(", "self.k_call_write_q(")]),
        ],
        file="src/dev/write.rs", start="FULL",
        rewrites=[(r"self\.k_call_write\(", "self.k_call_write_q(")],
    ),
    # ---- sizing of the in-ram tables when a device is created
    "N0": dict(
        file="src/dev/mod.rs", fn="new", start=r"let h = &header;", end=r"let dev = Qcow2Dev \{",
        sig="pub(crate) fn seg_n0(&self, header: Qcow2Header, params: &Qcow2DevParams) -> Qcow2Result<()>",
        post=EPI + "        self.out.set([l1_size as u64, rt_size as u64, l1_entries as u64, l2_cache_cnt as u64, rb_cache_cnt as u64, 0]);\n        core::mem::forget(header);\n        Ok(())",
    ),
    # ---- per-cluster dispatch of reads and writes on the mapping kind
    "DR": dict(
        file="src/dev/read.rs", fn="do_read", start="FULL",
        sig="pub(crate) fn seg_dr(&self, entry: L2Entry, offset: u64, buf: KBuf) -> Qcow2Result<usize>",
        await_calls=["do_read_data_file", "do_read_zero", "do_read_backing", "do_read_compressed"],
        rewrites=[(r"self\.k_do_read_compressed\(", "self.k_do_read_compressed_kb(")],
    ),
    "DW": dict(
        file="src/dev/write.rs", fn="do_write", start="FULL",
        sig="pub(crate) fn seg_dw(&self, l2_e: L2Entry, off: u64, buf: KBuf) -> Qcow2Result<()>",
        await_calls=["do_write_data_file", "do_write_cow"],
    ),
    # ---- data write incl. zero-once of a new cluster and the COW hand-off
    "WD": dict(
        file="src/dev/write.rs", fn="do_write_data_file", start="FULL",
        sig="pub(crate) fn seg_wd(&self, virt_off: u64, mapping: &Mapping, cow_mapping: Option<&Mapping>, buf: &[u8]) -> Qcow2Result<()>",
        await_calls=["do_compressed_cow", "do_back_cow", "clear_new_cluster", "call_fsync"],
        rewrites=[
            # futures are lazy: creating one sends nothing; model creation as a closure, `.await` as the call
            (r"let f_write = self\.call_write\((.*)\);", r"let f_write = || self.k_call_write_q(\1);"),
            (r"f_write\.await", "f_write()"),
            (r"discard = Some\(self\.call_fallocate\((.*)\)\);", r"discard = Some(|| self.k_call_fallocate(\1));"),
            (r"df\.await\?", "df()?"),
            (r"self\.new_cluster\.read\(\)\.await", "self.new_cluster.kread()"),
            (r"cluster\.write\(\)\.await", "cluster.kwrite()"),
        ],
    ),
    # ---- copy-on-write of one cluster: ordering of data, refcounts, mapping, release
    "WC": dict(
        file="src/dev/write.rs", fn="do_write_cow", start="FULL",
        sig="pub(crate) fn seg_wc(&self, off: u64, mapping: &Mapping, buf: &[u8]) -> Qcow2Result<()>",
        await_calls=["ensure_l2_offset", "get_l2_slice", "alloc_and_map_cluster", "write_at_for_cow", "do_write_data_file",
                     "free_clusters", "clear_new_cluster", "flush_refcount", "flush_table"],
        await_calls_opt=["call_fallocate", "cluster_is_new"],
        rewrites=[(r"\.write\(\)\.await", ".kwrite()"),
                  (r"self\.k_alloc_and_map_cluster\(", "self.k_alloc_and_map_cluster_rec("),
                  (r"self\.k_do_write_data_file\(", "self.k_do_write_data_file_s(")],
    ),
    # ---- the flush driver: refcounts before mappings, flag cleared only when nothing is left
    "FM": dict(
        file="src/dev/cache.rs", fn="flush_meta", start="FULL",
        sig="pub(crate) fn seg_fm(&self) -> Qcow2Result<()>",
        await_calls=["flush_refcount", "flush_meta_generic"],
        rewrites=[(r"self\.flush_lock\.lock\(\)\.await", "()"),
                  (r"&\*self\.l1table\.read\(\)\.await", "&self.l1_shim"),
                  (r"self\.k_flush_meta_generic\(l1, &self\.l2cache, ", "self.k_flush_meta_generic(l1, "),
                  (r"self\.l2_slice_key_of_l1_off\(", "self.seg_k0_l2(")],
    ),
    # ---- write-back of dirty slices incl. zero-once of a new metadata cluster
    "FC": dict(
        file="src/dev/cache.rs", fn="flush_cache_entries", start="FULL",
        sig="pub(crate) fn seg_fc<B: Table>(&self, v: KVec<(usize, &KHandle<B>)>) -> Qcow2Result<()>",
        rewrites=[
            (r"HashMap::new\(\)", "KMap::new()"),
            (r"Entry::Vacant\(slot\)", "KEntry::Vacant(slot)"),
            (r"e\.value\(\)\.read\(\)\.await", "e.value().kread()"),
            (r"self\.new_cluster\.read\(\)\.await", "self.new_cluster.kread()"),
            (r"self\.new_cluster\.write\(\)\.await", "self.new_cluster.kread()"),
            (r"cluster\.write\(\)\.await", "cluster.kwrite()"),
            # futures are lazy: creating one sends nothing; join_all runs them
            (r"f_vec\.push\(self\.call_fallocate\(", "f_vec.push(kdefer_fallocate(self, "),
            (r"f_vec\.push\(self\.flush_table\(&\*\*cache, 0, cache\.byte_size\(\)\)\)", "f_vec.push(kdefer_flush(self, &**cache, cache.byte_size()))"),
            (r"futures::future::join_all\(f_vec\)\.await", "kjoin(f_vec)", 2),
            (r"let mut f_vec = Vec::new\(\);", "let mut f_vec = KVec::new();", 2),
            (r"let mut cache_vec = Vec::new\(\);", "let mut cache_vec = KVec::new();"),
            (r"return r;", "return r.map_err(Into::into);"),
        ],
    ),
    # ---- the allocator's outer loop: advance refblock by refblock, move the hint up
    "AC": dict(
        file="src/dev/alloc.rs", fn="allocate_clusters", start="FULL",
        sig="pub(crate) fn seg_ac(&self, count: usize) -> Qcow2Result<Option<(u64, usize)>>",
        await_calls=["try_allocate_from"],
    ),
    # ---- extension of the active L1 header entries
    "LE": dict(
        parts=[
            dict(fn="ensure_l2_offset", start=r"if !l1_table\.in_bounds\(l1_index\)",
                 sig="pub(crate) fn seg_le(&self, l1_table: &mut L1Table, l1_index: usize) -> Qcow2Result<()>",
                 pre="        let info = &self.info;", post="        Ok(())",
                 await_calls=["allocate_clusters", "flush_refcount", "flush_mapping", "flush_top_table", "flush_header_for_l1_table", "free_clusters"],
                 rewrites=[(r"self\.k_flush_top_table\(", "self.k_flush_top_table_l1("),
                           (r"self\.header\.read\(\)\.await", "self.header.kread()")]),
            dict(fn="flush_header_for_l1_table", start="FULL",
                 sig="pub(crate) fn seg_lf(&self, l1_offset: u64, l1_entries: usize) -> Qcow2Result<()>",
                 await_calls=["commit_header"],
                 rewrites=[(r"self\.header\.write\(\)\.await", "self.header.kwrite()")]),
        ],
        file="src/dev/write.rs",
    ),
    # ---- slice load wrappers: cache miss -> add_cache_slice -> eviction write-back
    "SL": dict(
        parts=[
            dict(file="src/dev/cache.rs", fn="add_l2_slice", start="FULL",
                 sig="pub(crate) fn seg_sl_add_l2(&self, l1_e: &L1Entry, key: usize, slice_off: usize, slice: L2Table) -> Qcow2Result<()>",
                 await_calls=["add_cache_slice", "flush_refcount", "flush_cache_entries"],
                 rewrites=[(r"&self\.l2cache", "KWhich::L2"),
                           (r"self\.k_flush_refcount\(", "self.k_sl_flush_refcount("),
                           (r"self\.k_flush_cache_entries\(", "self.k_sl_flush_cache_entries(")]),
            dict(file="src/dev/cache.rs", fn="get_l2_slice_slow", start="FULL",
                 sig="pub(crate) fn seg_sl_get_l2_slow(&self, l1_e: &L1Entry, split: &SplitGuestOffset) -> Qcow2Result<KTok>",
                 await_calls=["add_l2_slice"],
                 rewrites=[(r"&self\.l2cache", "&self.sl.l2"),
                           (r"self\.k_add_l2_slice\(", "self.seg_sl_add_l2(")]),
            dict(file="src/dev/cache.rs", fn="get_l2_slice", start="FULL",
                 sig="pub(crate) fn seg_sl_get_l2(&self, split: &SplitGuestOffset) -> Qcow2Result<KTok>",
                 await_calls=["get_l1_entry", "get_l2_slice_slow"],
                 rewrites=[(r"self\.l2cache", "self.sl.l2"),
                           (r"self\.k_get_l1_entry\(", "self.k_sl_get_l1_entry("),
                           (r"self\.k_get_l2_slice_slow\(", "self.seg_sl_get_l2_slow(")]),
            dict(file="src/dev/alloc.rs", fn="add_rb_slice", start="FULL",
                 sig="pub(crate) fn seg_sl_add_rb(&self, rt_e: &RefTableEntry, key: usize, slice_off: usize, slice: RefBlock) -> Qcow2Result<()>",
                 await_calls=["add_cache_slice", "flush_cache_entries"],
                 rewrites=[(r"&self\.refblock_cache", "KWhich::Rb"),
                           (r"self\.k_flush_cache_entries\(", "self.k_sl_flush_cache_entries(")]),
            dict(file="src/dev/alloc.rs", fn="get_refblock", start="FULL",
                 sig="pub(crate) fn seg_sl_get_rb(&self, cls: &HostCluster, rt_e: &RefTableEntry) -> Qcow2Result<KTok>",
                 await_calls=["add_rb_slice"],
                 rewrites=[(r"&self\.refblock_cache", "&self.sl.rb"),
                           (r"self\.k_add_rb_slice\(", "self.seg_sl_add_rb(")]),
        ],
        file="src/dev/cache.rs",
    ),
    # ---- the raw-pointer request builders: table block write, top-table load
    "FT": dict(
        parts=[
            dict(fn="flush_table", start="FULL",
                 sig="pub(crate) fn seg_ft<B: Table>(&self, t: &B, start: u32, size: usize) -> Qcow2Result<()>",
                 await_calls=["call_write"],
                 rewrites=[(r"self\.k_call_write\(", "self.k_call_write_q(")]),
            dict(fn="load_top_table", start="FULL",
                 sig="pub(crate) fn seg_lt<B: Table>(&self, top: &KLock<B>, off: u64) -> Qcow2Result<usize>",
                 await_calls=["call_read"],
                 rewrites=[(r"top\.write\(\)\.await", "top.kwrite()"),
                           (r"self\.k_call_read\(", "self.k_call_read_fill(")]),
        ],
        file="src/dev/cache.rs",
    ),
    # ---- the formatter's initial refcounts
    "F2": dict(
        file="src/meta/header.rs", fn="format_qcow2", parent="src/meta/header.rs",
        start=r"let start = rc_table\.0 as usize;", end=r"let buf_start = buf\.as_mut_ptr",
        sig="pub(crate) fn seg_f2(&self, cluster_bits: usize, refcount_order: u8, rc_table: (u64, u32), rc_blk: (u64, u32), l1_table: (u64, u32)) -> Qcow2Result<(RefTable, RefBlock)>",
        pre="        let cluster_size = 1usize << cluster_bits;",
        forbid=[],
        post="        Ok((rc_t, ref_b))",
    ),
    # ---- the write-mapping drivers between write_at and the mapping functions
    "MW": dict(
        parts=[
            dict(fn="make_multiple_write_mappings", start="FULL",
                 sig="pub(crate) fn seg_mw_multi(&self, mut start: u64, end: u64) -> Qcow2Result<KVec<L2Entry>>",
                 await_calls=["get_l2_entry", "__make_multiple_write_mapping"],
                 rewrites=[(r"Vec::with_capacity\(\(\(end - start\) as usize\) >> info\.cluster_bits\(\)\)", "KVec::new()"),
                           (r"\bSelf::need_make_mapping\(", "Qcow2Dev::<super::verif_write::KIo>::need_make_mapping("),
                           (r"self\.k_get_l2_entry\(", "self.k_mw_get_l2_entry("),
                           (r"self\.k___make_multiple_write_mapping\(", "self.k_mw_make_multiple(")]),
            dict(fn="populate_single_write_mapping", start="FULL",
                 sig="pub(crate) fn seg_mw_single(&self, virt_off: u64) -> Qcow2Result<L2Entry>",
                 await_calls=["get_l2_entry", "make_single_write_mapping"],
                 rewrites=[(r"\bSelf::need_make_mapping\(", "Qcow2Dev::<super::verif_write::KIo>::need_make_mapping("),
                           (r"self\.k_get_l2_entry\(", "self.k_mw_get_l2_entry("),
                           (r"self\.k_make_single_write_mapping\(", "self.k_mw_make_single(")]),
            dict(fn="populate_write_mappings", start="FULL",
                 sig="pub(crate) fn seg_mw_populate(&self, virt_off: u64, len: usize) -> Qcow2Result<KVec<L2Entry>>",
                 await_calls=["make_multiple_write_mappings"],
                 rewrites=[(r"self\.k_make_multiple_write_mappings\(", "self.seg_mw_multi(")]),
        ],
        file="src/dev/write.rs", parent="src/dev/write.rs",
    ),
    # ---- the read leaves: data file, zeros, backing image
    "RL": dict(
        parts=[
            dict(fn="do_read_data_file", start="FULL",
                 sig="pub(crate) fn seg_rl_data(&self, mapping: Mapping, off_in_cls: usize, buf: &mut [u8]) -> Qcow2Result<usize>",
                 await_calls=["call_read"],
                 rewrites=[(r"self\.k_call_read\(", "self.k_call_read_fill(")]),
            dict(fn="do_read_zero", start="FULL",
                 sig="pub(crate) fn seg_rl_zero(&self, buf: &mut [u8]) -> Qcow2Result<usize>"),
            dict(fn="do_read_backing", start="FULL",
                 sig="pub(crate) fn seg_rl_backing(&self, mapping: Mapping, off_in_cls: usize, buf: &mut [u8]) -> Qcow2Result<usize>",
                 rewrites=[(r"backing\s*\.read_at_for_backing\(buf, off \+ off_in_cls as u64\)\s*\.await", "self.k_rl_backing_read(backing, buf, off + off_in_cls as u64)")]),
        ],
        file="src/dev/read.rs",
    ),
    # ---- the whole compressed read (inflate replaced by a recording stand-in)
    "RC": dict(
        file="src/dev/read.rs", fn="do_read_compressed", start="FULL",
        sig="pub(crate) fn seg_rc(&self, mapping: Mapping, off_in_cls: usize, buf: &mut [u8]) -> Qcow2Result<usize>",
        await_calls=["call_read"],
        rewrites=[(r"self\.k_call_read\(", "self.k_rc_call_read("),
                  (r"let mut dec_ox = DecompressorOxide::new\(\);", "let mut dec_ox = ();"),
                  (r"inflate\(&mut dec_ox, compressed_data, dst, 0, 0\)", "self.k_rc_inflate(compressed_data, dst)")],
    ),
    # ---- which table / cache / key function each flush driver hands to flush_meta_generic
    "FR": dict(
        parts=[
            dict(fn="flush_refcount", start="FULL",
                 sig="pub(crate) fn seg_fr_refcount(&self) -> Qcow2Result<()>",
                 await_calls=["flush_meta_generic"],
                 rewrites=[(r"self\.reftable\.read\(\)\.await", "self.fr_reftable.as_ref().unwrap().kread()"),
                           (r"&self\.refblock_cache", "KWhich::Rb", 0),
                           (r"self\.rb_slice_key_of_rt_off\(off\)", "self.seg_k0_rb(off)", 0),
                           (r"self\.l2_slice_key_of_l1_off\(off\)", "self.seg_k0_l2(off)", 0),
                           (r"&self\.l2cache", "KWhich::L2", 0),
                           (r"self\.k_flush_meta_generic\(", "self.k_fr_flush_meta_generic(")]),
            dict(fn="flush_mapping", start="FULL",
                 sig="pub(crate) fn seg_fr_mapping(&self, l1: &L1Table) -> Qcow2Result<()>",
                 await_calls=["flush_meta_generic"],
                 rewrites=[(r"&self\.l2cache", "KWhich::L2", 0),
                           (r"&self\.refblock_cache", "KWhich::Rb", 0),
                           (r"self\.l2_slice_key_of_l1_off\(off\)", "self.seg_k0_l2(off)", 0),
                           (r"self\.rb_slice_key_of_rt_off\(off\)", "self.seg_k0_rb(off)", 0),
                           (r"self\.k_flush_meta_generic\(", "self.k_fr_flush_meta_generic(")]),
        ],
        file="src/dev/cache.rs",
    ),
    # ---- single L2 lookup (write path, discard, get_mapping)
    "GS": dict(
        file="src/dev/read.rs", fn="get_l2_entry", start="FULL",
        sig="pub(crate) fn seg_gs(&self, virtual_offset: u64) -> Qcow2Result<L2Entry>",
        await_calls=["get_l1_entry", "get_l2_slice_slow"],
        rewrites=[(r"\.read\(\)\.await", ".kread()", 2)],
    ),
    # ---- cache shrink and the dirty-range flush
    "SC": dict(
        parts=[
            dict(fn="shrink_caches", start="FULL",
                 sig="pub(crate) fn seg_sc_shrink(&self) -> Qcow2Result<()>",
                 await_calls=["flush_meta"],
                 rewrites=[(r"self\.refblock_cache\.shrink\(\)", "self.k_sc_shrink(KWhich::Rb)", 0),
                           (r"self\.l2cache\.shrink\(\)", "self.k_sc_shrink(KWhich::L2)", 0),
                           (r"self\.k_flush_meta\(", "self.k_sc_flush_meta(")]),
            dict(fn="flush_cache", start="FULL",
                 sig="pub(crate) fn seg_sc_flush_cache(&self, cache: &KDirtySet, start: usize, end: usize) -> Qcow2Result<bool>",
                 await_calls=["flush_cache_entries"],
                 rewrites=[(r"self\.k_flush_cache_entries\(", "self.k_sl_flush_cache_entries(")]),
        ],
        file="src/dev/cache.rs",
    ),
}
