// Harness over do_write_cow lifted from src/dev/write.rs; child of `crate::dev`.
// @module-needs env header seg:WC
#![allow(dead_code, unused_imports)]
use super::*;
use crate::dev::verif_env::*;
use crate::meta::verif_header::{any_geo, info_of, mk_info, Geo};
use crate::meta::{L1Entry, L2Entry, L2Table, Mapping, MappingSource, SplitGuestOffset, Table, TableEntry};
use crate::verif_spec as spec;

fn fmt_stub2(_a: core::fmt::Arguments<'_>) -> String {
    String::new()
}

// @harness c10_cow_sequence
// @props C10 C03 C18 C01 C17 C02 C04
// @tier quick
// @cost 34
// @timeout 1200
// @needs WC
// @desc the whole body of do_write_cow (lock, lookups, allocator, data write, flushes and release shimmed and recorded) for a partial write over a compressed or backing-provided cluster: a new cluster is allocated and mapped under the slice lock, the merged data is written (with the COW source), THEN the refcounts are flushed, THEN the L2 slice holding the new mapping is written (whole slice, at its host offset) and marked clean, and only THEN the replaced compressed clusters are released -- exactly the clusters the old descriptor occupied, once; a backing-provided cluster releases nothing; if the cluster was already copied by someone else the request is simply re-issued as a plain write; if the data write fails the allocated cluster is freed and unregistered, the old entry is restored bit for bit and the error is returned; if the refcount flush or the in-place write of the L2 slice fails the error is returned, nothing is released and the slice that now differs from the disk stays dirty
// @bounds 512-byte slice (64 entries), one block written at any in-cluster block offset; old entry: any spec-valid compressed descriptor or an unallocated entry of an image with a backing file; the slice may meanwhile hold any spec-valid entry (race); 64 KiB clusters; allocated cluster any aligned offset < 2^56; data-write, refcount-flush and slice-write outcomes symbolic
// @funcs Qcow2Dev::do_write_cow (whole body) L2Table::{get_mapping,set} L2Entry::{from_mapping,compressed_range}
// @stub alloc::fmt::format -> String::new()
#[kani::proof]
#[kani::unwind(10)]
#[kani::stub(std::fmt::format, fmt_stub2)]
fn c10_cow_sequence() {
    let cb = 16u32;
    let info = mk_info(cb, 4, 1u64 << 40, 9, Some((9, 1024)), Some((10, 2048)), false, false, true);
    let mut env = KEnv::new(info);
    let cs = 1u64 << cb;
    // what the caller saw when it decided to COW
    let seen: u64 = kani::any();
    kani::assume(spec::l2_valid(seen, cb));
    let seen_d = spec::decode_l2(seen, cb);
    kani::assume(seen_d.kind == spec::Kind::Compressed || seen_d.kind == spec::Kind::Unallocated);
    let blk: u64 = kani::any();
    kani::assume(blk < cs / 512);
    let guest_cluster: u64 = 5 * 64 + 17; // slice key 5, slot 17
    let off = (guest_cluster << cb) + blk * 512;
    let seen_m = L2Entry(seen).into_mapping(&env.info, &SplitGuestOffset(off));
    // what the slice holds now (same entry, or something else if another writer got there first)
    let raced: bool = kani::any();
    let now: u64 = if raced { kani::any() } else { seen };
    kani::assume(spec::l2_valid(now, cb));
    let mut t = L2Table::new(Some(0x50000), 512, cb as usize);
    t.set(17, L2Entry(now));
    env.l2_slice = Some(KHandle::new(t));
    env.l1_entry = unsafe { core::mem::transmute::<u64, L1Entry>(0x8000_0000_0005_0000u64) };
    let host: u64 = kani::any();
    kani::assume(host != 0 && host & (cs - 1) == 0 && host >> 56 == 0);
    env.alloc_off = host;
    let fail: bool = kani::any();
    env.fail_write.set(fail);
    // the data write works but the refcount flush / the in-place write of the L2 slice does not
    let fail_rc: bool = kani::any();
    let fail_l2: bool = kani::any();
    kani::assume(!fail || (!fail_rc && !fail_l2));
    env.fail_rc.set(fail_rc);
    env.fail_table.set(fail_l2);
    let data = [0u8; 512];
    let r = env.seg_wc(off, &seen_m, &data);
    let h = env.l2_slice.as_ref().unwrap();
    let entry_after = h.value().kwrite().get(17).0;
    let now_d = spec::decode_l2(now, cb);
    let still_cow = now_d.kind == spec::Kind::Compressed || now_d.kind == spec::Kind::Unallocated;
    let n = env.nrec.get();
    if !still_cow {
        // someone else already gave the cluster a mapping: plain write, nothing else
        assert!(r.is_ok() && n == 1);
        let w = env.get_rec(0);
        assert!(w.kind == K_WRITE && w.off == off && w.len == 512);
        assert!(entry_after == now);
    } else {
        let a = env.get_rec(0);
        assert!(a.kind == K_ALLOC);
        let d = env.get_rec(1);
        assert!(d.kind == K_LEAF_DATA && d.entry == host && d.off == off && d.len == 512 && d.flags == 1);
        if fail {
            assert!(r.is_err());
            assert!(n == 4);
            let f = env.get_rec(2);
            assert!(f.kind == K_FREE && f.off == host && f.len == 1);
            assert!(env.get_rec(3).kind == K_CLEARNEW && env.get_rec(3).off == host >> cb);
            // the mapping the caller saw is back in place
            assert!(entry_after == seen);
        } else if fail_rc || fail_l2 {
            // the new mapping did not reach the disk: the error is returned, nothing of the old
            // allocation is released, and a slice that differs from the disk stays dirty (so that
            // flush_meta writes it once the backend works again)
            assert!(r.is_err());
            assert!(env.count(K_FREE) == 0);
            assert!(entry_after == seen || (h.is_dirty() && env.need_flush_meta()));
            assert!(entry_after == seen || entry_after == spec::COPIED | host);
            if fail_rc {
                assert!(env.count(K_BACKEND_WRITE) == 0);
            }
        } else {
            assert!(r.is_ok());
            assert!(entry_after == spec::COPIED | host);
            // order: data, then refcounts, then the L2 slice, then the release (other requests in
            // between are tolerated)
            let (i_data, i_rc, i_l2) = (env.first(K_LEAF_DATA), env.first(K_FLUSH_REFCOUNT), env.first(K_BACKEND_WRITE));
            assert!(i_data < i_rc && i_rc < i_l2 && i_l2 < n);
            let w = env.get_rec(i_l2);
            assert!(w.off == 0x50000 && w.len == 512);
            assert!(!h.is_dirty() && env.need_flush_meta());
            if seen_d.kind == spec::Kind::Compressed {
                assert!(env.count(K_FREE) == 1);
                let i_free = env.first(K_FREE);
                assert!(i_l2 < i_free);
                let f = env.get_rec(i_free);
                let (first, cnt) = spec::l2_allocation(seen, cb);
                assert!(f.off == first && f.len as u64 == cnt);
            } else {
                assert!(env.count(K_FREE) == 0);
            }
        }
    }
    kani::cover!(still_cow && !fail && seen_d.kind == spec::Kind::Compressed);
    kani::cover!(still_cow && !fail && seen_d.kind == spec::Kind::Unallocated);
    kani::cover!(still_cow && fail);
    kani::cover!(still_cow && !fail && fail_l2 && !fail_rc);
    kani::cover!(still_cow && !fail && fail_rc);
    kani::cover!(!still_cow);
    core::mem::forget(r);
    core::mem::forget(seen_m);
    core::mem::forget(env);
}

// @harness c04_cow_slice_into_new_cluster
// @props C04 C02
// @tier quick
// @cost 10
// @timeout 900
// @needs WC
// @desc whole do_write_cow (lifted) when the L2 table that holds the slice lives in a cluster that is still registered as NEW (allocated, never zeroed on disk -- flush_cache_entries zeroes such a cluster once before the first slice goes in, and zeroes the WHOLE cluster): the in-place write of the L2 slice must not go into that cluster unless the cluster was zeroed first and taken off the registry; otherwise the next ordinary flush of a sibling slice of the same L2 table zeroes the cluster and wipes the slice just written, although it is marked clean
// @bounds 64 KiB clusters, 512-byte L2 slice in an L2 table at 0x50000 whose cluster is registered new; unallocated cluster of an image with a backing file; every in-cluster block offset; no backend failures
// @assume as c10_cow_sequence; the registry is observed through the shimmed cluster_is_new / clear_new_cluster / call_fallocate calls
// @funcs Qcow2Dev::do_write_cow
// @stub alloc::fmt::format -> String::new()
#[kani::proof]
#[kani::unwind(10)]
#[kani::stub(std::fmt::format, fmt_stub2)]
fn c04_cow_slice_into_new_cluster() {
    let cb = 16u32;
    let info = mk_info(cb, 4, 1u64 << 40, 9, Some((9, 1024)), Some((10, 2048)), false, false, true);
    let mut env = KEnv::new(info);
    let cs = 1u64 << cb;
    let blk: u64 = kani::any();
    kani::assume(blk < cs / 512);
    let guest_cluster: u64 = 5 * 64 + 17;
    let off = (guest_cluster << cb) + blk * 512;
    let seen_m = L2Entry(0).into_mapping(&env.info, &SplitGuestOffset(off));
    let mut t = L2Table::new(Some(0x50000), 512, cb as usize);
    t.set(17, L2Entry(0));
    env.l2_slice = Some(KHandle::new(t));
    env.l1_entry = unsafe { core::mem::transmute::<u64, L1Entry>(0x8000_0000_0005_0000u64) };
    // the L2 table's own cluster (0x50000 >> 16 == 5) has not been zeroed on disk yet
    env.cluster_new.set(true);
    let host: u64 = kani::any();
    kani::assume(host != 0 && host != 0x50000 && host & (cs - 1) == 0 && host >> 56 == 0);
    env.alloc_off = host;
    let data = [0u8; 512];

    let r = env.seg_wc(off, &seen_m, &data);

    assert!(r.is_ok());
    let i_l2 = env.first(K_BACKEND_WRITE);
    if i_l2 != usize::MAX && env.get_rec(i_l2).off >> cb == 5 {
        // a slice went into cluster 5: it must have been zeroed and taken off the registry before
        let i_zero = env.first(K_FALLOC);
        let i_clear = env.first(K_CLEARNEW);
        assert!(i_zero != usize::MAX && i_zero < i_l2 && env.get_rec(i_zero).off == 0x50000 && env.get_rec(i_zero).len as u64 == cs);
        assert!(i_clear != usize::MAX && env.get_rec(i_clear).off == 5);
    } else {
        // or the slice is left for the ordinary flush (which zeroes first): then it must be dirty
        assert!(env.l2_slice.as_ref().unwrap().is_dirty());
    }
    kani::cover!(r.is_ok() && blk > 0);
    core::mem::forget(r);
    core::mem::forget(seen_m);
    core::mem::forget(env);
}
