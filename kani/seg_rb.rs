// Harness over the read prologue with a real caller buffer; child of `crate::dev`.
// @module-needs env header seg:RB
#![allow(dead_code, unused_imports)]
use super::*;
use crate::dev::verif_env::*;
use crate::meta::verif_header::{any_geo, info_of, mk_info, Geo};
use crate::verif_spec as spec;

fn fmt_stub2(_a: core::fmt::Arguments<'_>) -> String {
    String::new()
}

// @harness c10_read_beyond_backing_eof
// @props C10 C01
// @tier quick
// @cost 20
// @timeout 900
// @needs RB
// @desc a backing device asked for data at or beyond its own end (top image larger than its backing image): every byte of the caller's buffer that read_at reports as read but that lies beyond the backing image's virtual size is ZERO afterwards -- for reads starting beyond the end (nothing is requested from the file) and for the tail of reads crossing the end; checked on the read prologue over a real 1 KiB buffer with arbitrary previous content
// @bounds buffer 512 or 1024 bytes of arbitrary content; offset: all u64; backing image size: all u64 <= 2^63; 64 KiB clusters, 512-byte blocks (concrete)
// @funcs Qcow2Dev::__read_at (prologue, is_back_file branches)
// @stub alloc::fmt::format -> String::new()
// @assume virtual size <= 2^63
#[kani::proof]
#[kani::unwind(4)]
#[kani::stub(std::fmt::format, fmt_stub2)]
fn c10_read_beyond_backing_eof() {
    let vsize: u64 = kani::any();
    kani::assume(vsize <= 1u64 << 63);
    let info = mk_info(16, 4, vsize, 9, Some((9, 1024)), Some((9, 1024)), true, true, false);
    let env = KEnv::new(info);
    let mut data: [u8; 1024] = kani::any();
    let two: bool = kani::any();
    let len = if two { 1024 } else { 512 };
    let offset: u64 = kani::any();
    let r = env.seg_rb(&mut data[..len], offset);
    let i: usize = kani::any();
    kani::assume(i < len);
    if env.passed.get() {
        // bytes [clamped, len) lie beyond the end of the backing image
        let clamped = env.out.get()[1] as usize;
        let extra = env.out.get()[3] as usize;
        assert!(clamped + extra == len);
        if i >= clamped {
            assert!(data[i] == 0);
        }
        kani::cover!(extra == 512);
        kani::cover!(extra == 0);
    } else if let Ok(n) = &r {
        // nothing is read from the image: whatever is reported as read must be zeros
        if i < *n {
            assert!(data[i] == 0);
        }
        kani::cover!(*n == 1024 && offset >= vsize, "read entirely beyond the backing image");
    }
    kani::cover!(r.is_err());
    core::mem::forget(r);
    core::mem::forget(env);
}
