// Harness module injected as a child of `crate::meta::refcount` (sees RefBlock::__get/__set and
// the private raw_data field).
// @module-needs header
#![allow(dead_code, unused_imports)]
use super::*;
use crate::meta::verif_header::{any_geo, fmt_stub, info_of};
use crate::verif_spec as spec;

/// an 8-byte refcount-block slice with arbitrary content, of symbolic width
fn any_rb(order: u8) -> (RefBlock, [u8; 8]) {
    let mut rb = RefBlock::new(order, 8, None);
    let init: [u8; 8] = kani::any();
    let raw = rb.raw_data.as_u8_slice_mut();
    let mut k = 0;
    while k < 8 {
        raw[k] = init[k];
        k += 1;
    }
    (rb, init)
}

fn any_order() -> u8 {
    let o: u8 = kani::any();
    kani::assume(o <= 6);
    o
}

fn bytes_of(rb: &RefBlock) -> [u8; 8] {
    let raw = rb.raw_data.as_u8_slice();
    [raw[0], raw[1], raw[2], raw[3], raw[4], raw[5], raw[6], raw[7]]
}

// @harness c15_refblock_get
// @props C15 C03 C09
// @tier quick
// @cost 7
// @timeout 600
// @desc RefBlock::get (__get) of every width equals the spec: big-endian words for widths >= 8, LSB-first packing inside a byte for widths < 8; entries() == bytes*8/refcount_bits; for every slice content and index
// @bounds slice: 8 bytes arbitrary content (64 entries at 1 bit .. 1 entry at 64 bit); refcount_order 0..=6 symbolic; index: every entry
// @funcs RefBlock::__get RefBlock::get RefBlock::entries RefBlock::byte_size RefBlock::new
// @stub alloc::fmt::format -> String::new()
#[kani::proof]
#[kani::unwind(9)]
#[kani::stub(alloc::fmt::format, fmt_stub)]
fn c15_refblock_get() {
    let order = any_order();
    let (rb, init) = any_rb(order);
    assert!(rb.entries() as u64 == 64u64 >> order);
    assert!(rb.byte_size() == 8);
    let i: usize = kani::any();
    kani::assume(i < rb.entries());
    assert!(rb.get(i).into_plain() == spec::rc_get(&init, order as u32, i));
    kani::cover!(order == 0 && i == 63);
    kani::cover!(order == 2 && i % 2 == 1);
    kani::cover!(order == 4 && i == 3);
    kani::cover!(order == 6);
}

// @harness c15_refblock_set
// @props C15 C03
// @tier quick
// @cost 29
// @timeout 900
// @desc RefBlock::__set of every width: refuses exactly the values that do not fit and then leaves the slice unchanged; otherwise the addressed entry reads back the value per the spec layout and NO other entry and no byte outside the entry changes
// @bounds slice: 8 bytes arbitrary content; refcount_order 0..=6 symbolic; every index, every u64 value; frame checked for every other index/byte (symbolic)
// @funcs RefBlock::__set RefBlock::__get
// @stub alloc::fmt::format -> String::new()
#[kani::proof]
#[kani::unwind(9)]
#[kani::stub(alloc::fmt::format, fmt_stub)]
fn c15_refblock_set() {
    let order = any_order();
    let (mut rb, init) = any_rb(order);
    let i: usize = kani::any();
    kani::assume(i < rb.entries());
    let v: u64 = kani::any();
    let r = rb.__set(i, v);
    let after = bytes_of(&rb);
    let j: usize = kani::any();
    let k: usize = kani::any();
    kani::assume(k < 8);
    match &r {
        Ok(()) => {
            assert!(v <= spec::rc_max(order as u32));
            assert!(spec::rc_get(&after, order as u32, i) == v);
            if j < rb.entries() && j != i {
                assert!(spec::rc_get(&after, order as u32, j) == spec::rc_get(&init, order as u32, j));
            }
            // bytes that hold no bit of entry i are untouched
            let w = 1usize << order;
            let first = i * w / 8;
            let last = (i * w + w - 1) / 8;
            if k < first || k > last {
                assert!(after[k] == init[k]);
            }
            kani::cover!(order == 1 && v == 3);
            kani::cover!(order == 5 && v == u32::MAX as u64);
        }
        Err(_) => {
            assert!(v > spec::rc_max(order as u32));
            assert!(after[k] == init[k]);
            kani::cover!(order == 0 && v == 2);
        }
    }
    kani::cover!(r.is_ok() && order == 6);
    core::mem::forget(r);
}

// @harness c03_refcount_step
// @props C03 C08 C15
// @tier quick
// @cost 54
// @timeout 900
// @desc RefBlock::increment / decrement: exactly the addressed entry changes, by exactly +1 / -1; an increment at the width's maximum and a decrement at 0 are refused and leave the slice unchanged
// @bounds slice: 8 bytes arbitrary content; refcount_order 0..=6 symbolic; every index; frame for every other index
// @funcs RefBlock::increment RefBlock::decrement RefBlock::__set RefBlock::__get
// @stub alloc::fmt::format -> String::new()
#[kani::proof]
#[kani::unwind(9)]
#[kani::stub(alloc::fmt::format, fmt_stub)]
fn c03_refcount_step() {
    let order = any_order();
    let (mut rb, init) = any_rb(order);
    let i: usize = kani::any();
    kani::assume(i < rb.entries());
    let j: usize = kani::any();
    let old = spec::rc_get(&init, order as u32, i);
    let inc: bool = kani::any();
    let r = if inc { rb.increment(i) } else { rb.decrement(i) };
    let after = bytes_of(&rb);
    let new = spec::rc_get(&after, order as u32, i);
    if j < rb.entries() && j != i {
        assert!(spec::rc_get(&after, order as u32, j) == spec::rc_get(&init, order as u32, j));
    }
    match &r {
        Ok(()) => {
            if inc {
                assert!(old < spec::rc_max(order as u32) && new == old + 1);
            } else {
                assert!(old > 0 && new == old - 1);
            }
        }
        Err(_) => {
            assert!(new == old);
            assert!(if inc { old == spec::rc_max(order as u32) } else { old == 0 });
        }
    }
    kani::cover!(r.is_ok() && inc && old == 0);
    kani::cover!(r.is_ok() && !inc && old == 1);
    kani::cover!(r.is_err() && inc && order == 6);
    kani::cover!(r.is_err() && !inc);
    core::mem::forget(r);
}

macro_rules! free_range_harness {
    ($name:ident, $order:expr, $maxcount:expr, $unwind:expr) => {
        #[kani::proof]
        #[kani::unwind($unwind)]
        #[kani::stub(alloc::fmt::format, fmt_stub)]
        fn $name() {
            let order: u8 = $order;
            let (rb, init) = any_rb(order);
            let entries = rb.entries();
            let start: usize = kani::any();
            let count: usize = kani::any();
            kani::assume(count >= 1 && count <= $maxcount);
            kani::assume(start <= entries && count <= entries - start);
            let r = rb.get_free_range(start, count);
            // symbolic witnesses (universally quantified by the solver)
            let j: usize = kani::any();
            let s2: usize = kani::any();
            match &r {
                Some(r) => {
                    assert!(r.start >= start && r.end == r.start + count && r.end <= entries);
                    if j >= r.start && j < r.end {
                        assert!(spec::rc_get(&init, order as u32, j) == 0);
                    }
                    // first fit: no all-free window starts earlier
                    if s2 >= start && s2 < r.start {
                        let mut any_used = false;
                        let mut k = 0;
                        while k < $maxcount {
                            if k < count && spec::rc_get(&init, order as u32, s2 + k) != 0 {
                                any_used = true;
                            }
                            k += 1;
                        }
                        assert!(any_used);
                    }
                    kani::cover!(r.start > start, "had to skip allocated entries");
                }
                None => {
                    if s2 >= start && s2 <= entries - count {
                        let mut any_used = false;
                        let mut k = 0;
                        while k < $maxcount {
                            if k < count && spec::rc_get(&init, order as u32, s2 + k) != 0 {
                                any_used = true;
                            }
                            k += 1;
                        }
                        assert!(any_used);
                    }
                }
            }
            // tail range
            let t = rb.get_tail_free_range();
            match &t {
                Some(t) => {
                    assert!(t.end == entries && t.start >= 1 && t.start < entries);
                    if j >= t.start && j < t.end {
                        assert!(spec::rc_get(&init, order as u32, j) == 0);
                    }
                    assert!(spec::rc_get(&init, order as u32, t.start - 1) != 0);
                    // the non-fixed fallback never hands out more than requested
                    if r.is_none() {
                        assert!(t.len() < count);
                        assert!(t.start >= start);
                    }
                }
                None => {
                    // last entry in use, or nothing in use at all
                    let last_used = spec::rc_get(&init, order as u32, entries - 1) != 0;
                    if !last_used && j < entries {
                        assert!(spec::rc_get(&init, order as u32, j) == 0);
                    }
                }
            }
            kani::cover!(r.is_some());
            kani::cover!(r.is_none() && t.is_some());
            kani::cover!(r.is_none() && t.is_none());
        }
    };
}

// @harness c08_free_range_o2
// @props C08 C03
// @tier quick
// @cost 181
// @timeout 900
// @desc same as c08_free_range_o0 at 4-bit refcounts (16 entries)
// @bounds slice: 8 bytes arbitrary content; count 1..=4; start any; refcount_order 2 (concrete)
// @funcs RefBlock::get_free_range RefBlock::get_tail_free_range RefBlock::__get RefBlock::entries
// @stub alloc::fmt::format -> String::new()
free_range_harness!(c08_free_range_o2, 2, 4, 18);

// @harness c08_free_range_o3
// @props C08 C03
// @tier quick
// @cost 35
// @timeout 900
// @desc same at 8-bit refcounts (8 entries)
// @bounds slice: 8 bytes arbitrary content; count 1..=4; start any; refcount_order 3 (concrete)
// @funcs RefBlock::get_free_range RefBlock::get_tail_free_range RefBlock::__get RefBlock::entries
// @stub alloc::fmt::format -> String::new()
free_range_harness!(c08_free_range_o3, 3, 4, 10);

// @harness c08_free_range_o4
// @props C08 C03
// @tier quick
// @cost 142
// @timeout 900
// @desc same at 16-bit refcounts (4 entries), the default width
// @bounds slice: 8 bytes arbitrary content; count 1..=4; start any; refcount_order 4 (concrete)
// @funcs RefBlock::get_free_range RefBlock::get_tail_free_range RefBlock::__get RefBlock::entries
// @stub alloc::fmt::format -> String::new()
free_range_harness!(c08_free_range_o4, 4, 4, 10);

// @harness c08_free_range_o5
// @props C08 C03
// @tier quick
// @cost 131
// @timeout 900
// @desc same at 32-bit refcounts (2 entries)
// @bounds slice: 8 bytes arbitrary content; count 1..=2; start any; refcount_order 5 (concrete)
// @funcs RefBlock::get_free_range RefBlock::get_tail_free_range RefBlock::__get RefBlock::entries
// @stub alloc::fmt::format -> String::new()
free_range_harness!(c08_free_range_o5, 5, 2, 10);

// @harness c03_alloc_range
// @props C03 C08
// @tier quick
// @cost 173
// @timeout 900
// @desc RefBlock::alloc_range(s,e) on a free window: every entry in [s,e) goes 0 -> 1, no entry outside changes
// @bounds slice: 8 bytes arbitrary content; refcount_order 0..=6 symbolic; e-s <= 4
// @funcs RefBlock::alloc_range RefBlock::increment
// @stub alloc::fmt::format -> String::new()
#[kani::proof]
#[kani::unwind(9)]
#[kani::stub(alloc::fmt::format, fmt_stub)]
fn c03_alloc_range() {
    let order = any_order();
    let (mut rb, init) = any_rb(order);
    let entries = rb.entries();
    let s: usize = kani::any();
    let e: usize = kani::any();
    kani::assume(s <= e && e <= entries && e - s <= 4);
    // the allocator only applies it to windows it found free
    let mut k = 0;
    while k < 4 {
        if s + k < e {
            kani::assume(spec::rc_get(&init, order as u32, s + k) == 0);
        }
        k += 1;
    }
    let r = rb.alloc_range(s, e);
    assert!(r.is_ok());
    let after = bytes_of(&rb);
    let j: usize = kani::any();
    kani::assume(j < entries);
    if j >= s && j < e {
        assert!(spec::rc_get(&after, order as u32, j) == 1);
    } else {
        assert!(spec::rc_get(&after, order as u32, j) == spec::rc_get(&init, order as u32, j));
    }
    kani::cover!(e - s == 4 && order == 0);
    kani::cover!(e == s);
    core::mem::forget(r);
}

// @harness c15_reftable_entry
// @props C15 C14 C03
// @tier quick
// @cost 21
// @timeout 300
// @desc RefTableEntry decode/validate: refblock_offset = bits 9..63, reserved = bits 0..8; try_from_plain accepts every spec-valid entry and everything it accepts has reserved bits clear and a cluster-aligned offset; RefTable::set_refblock_offset stores exactly the offset (big-endian) and marks the containing block dirty
// @bounds raw: all u64; geometry symbolic; 8-entry table
// @funcs RefTableEntry::try_from_plain RefTableEntry::refblock_offset RefTable::set_refblock_offset RefTable::new Table::set_dirty
// @stub alloc::fmt::format -> String::new()
#[kani::proof]
#[kani::unwind(9)]
#[kani::stub(alloc::fmt::format, fmt_stub)]
fn c15_reftable_entry() {
    let g = any_geo();
    let info = info_of(&g, kani::any(), false, false, false);
    let raw: u64 = kani::any();
    let e = RefTableEntry(raw);
    assert!(e.refblock_offset() == raw & spec::RT_OFFSET_MASK);
    assert!(e.reserved_bits() == raw & spec::RT_RESERVED);
    let r = <RefTableEntry as TableEntry>::try_from_plain(raw, &info);
    match &r {
        Ok(x) => {
            assert!(spec::rt_valid(raw, g.cb));
            assert!(x.into_plain() == raw);
        }
        Err(_) => assert!(!spec::rt_valid(raw, g.cb)),
    }
    kani::cover!(r.is_ok() && raw != 0);
    kani::cover!(r.is_err());
    core::mem::forget(r);

    let mut rt = RefTable::new(None, 64, g.bs);
    let idx: usize = kani::any();
    kani::assume(idx < 8);
    let off: u64 = kani::any();
    kani::assume(spec::rt_valid(off, g.cb));
    rt.set_refblock_offset(idx, off);
    assert!(rt.get(idx).refblock_offset() == off);
    let want = off.to_be_bytes();
    let p = rt.as_ptr();
    let mut b = 0;
    while b < 8 {
        assert!(unsafe { *p.add(idx * 8 + b) } == want[b]);
        b += 1;
    }
    assert!(rt.pop_dirty_blk_idx(None) == Some(((idx as u32) * 8) >> g.bs));
    assert!(rt.pop_dirty_blk_idx(None).is_none());
    core::mem::forget(info);
}

// @harness c15_dirty_blocks
// @props C15 C16 C02
// @tier quick
// @cost 209
// @timeout 600
// @desc top-table dirty-block queue (RefTable instantiation): after set_dirty on up to 3 arbitrary entries, the queue pops each dirty block exactly once, block idx == (8*i) >> bs_bits for a marked entry, the byte range [idx<<bs, (idx+1)<<bs) contains that entry, and the queue is empty afterwards; pop_dirty_blk_idx(Some(x)) removes exactly x
// @bounds 3 entries, indices < 2^22 (8 MiB / 32 MiB tables); block bits 9..=12 symbolic
// @funcs Table::set_dirty Table::pop_dirty_blk_idx (impl_top_table_gen_funcs, RefTable instantiation)
// @stub alloc::fmt::format -> String::new()
#[kani::proof]
#[kani::unwind(6)]
#[kani::stub(alloc::fmt::format, fmt_stub)]
fn c15_dirty_blocks() {
    let bs: u8 = kani::any();
    kani::assume(bs >= 9 && bs <= 12);
    let rt = RefTable::new(None, 64, bs);
    let i: [usize; 3] = kani::any();
    kani::assume(i[0] < (1 << 22) && i[1] < (1 << 22) && i[2] < (1 << 22));
    let blk = |x: usize| ((x as u64 * 8) >> bs) as u32;
    rt.set_dirty(i[0]);
    rt.set_dirty(i[1]);
    rt.set_dirty(i[2]);
    let b0 = blk(i[0]);
    let b1 = blk(i[1]);
    let b2 = blk(i[2]);
    let distinct = 1 + (b1 != b0) as u32 + (b2 != b0 && b2 != b1) as u32;
    let remove_first: bool = kani::any();
    let mut popped = 0u32;
    if remove_first {
        // targeted removal (flush of one block) removes exactly that block
        assert!(rt.pop_dirty_blk_idx(Some(b1)) == Some(b1));
        assert!(rt.pop_dirty_blk_idx(Some(b1)).is_none());
        popped = 1;
    }
    let mut last: Option<u32> = None;
    let mut n = 0;
    while n < 4 {
        match rt.pop_dirty_blk_idx(None) {
            Some(b) => {
                assert!(b == b0 || b == b1 || b == b2);
                if remove_first {
                    assert!(b != b1);
                }
                assert!(last != Some(b));
                // the block range covers the bytes of a marked entry
                let lo = (b as u64) << bs;
                let hi = lo + (1u64 << bs);
                let covers = |x: usize| (x as u64) * 8 >= lo && (x as u64) * 8 + 8 <= hi;
                assert!(covers(i[0]) || covers(i[1]) || covers(i[2]));
                last = Some(b);
                popped += 1;
            }
            None => break,
        }
        n += 1;
    }
    assert!(popped == distinct);
    assert!(rt.pop_dirty_blk_idx(None).is_none());
    kani::cover!(distinct == 3);
    kani::cover!(distinct == 1);
}
