//! Independent model of the qcow2 on-disk format, written from the specification text
//! (qemu docs/interop/qcow2.txt), NOT from the library.  It calls no function of qcow2-rs and
//! derives every quantity from `cluster_bits` / `refcount_order` itself.
//!
//! All divisors of the format are powers of two by definition, so quotients and remainders are
//! written as shifts and masks by the *spec-level* exponent (a 64-bit division by a symbolic
//! divisor stalls bit-blasting).  `selftest_constants` ties the exponents back to the spec's
//! worked numbers.
#![allow(dead_code)]

pub const COPIED: u64 = 1u64 << 63;
pub const COMPRESSED: u64 = 1u64 << 62;
pub const ZERO_FLAG: u64 = 1u64;

/// "Bit 9 - 55: Bits 9-55 of host cluster offset"
pub const STD_OFFSET_MASK: u64 = 0x00ff_ffff_ffff_fe00;
/// Standard cluster descriptor: "1 - 8: Reserved (set to 0)", "56 - 61: Reserved (set to 0)"
pub const STD_RESERVED: u64 = 0x3f00_0000_0000_01fe;
/// L1 entry: "0 - 8: Reserved", "56 - 62: Reserved"
pub const L1_RESERVED: u64 = 0x7f00_0000_0000_01ff;
pub const L1_OFFSET_MASK: u64 = 0x00ff_ffff_ffff_fe00;
/// Refcount table entry: "Bit 0 - 8: Reserved (set to 0)", "9 - 63: Bits 9-63 of the offset"
pub const RT_RESERVED: u64 = 0x1ff;
pub const RT_OFFSET_MASK: u64 = 0xffff_ffff_ffff_fe00;

pub const MIN_CLUSTER_BITS: u32 = 9;
pub const MAX_CLUSTER_BITS: u32 = 21;
pub const MAX_REFCOUNT_ORDER: u32 = 6;

#[inline(always)]
pub fn cluster_size(cb: u32) -> u64 {
    1u64 << cb
}

/// l2_entries = cluster_size / sizeof(uint64_t)
#[inline(always)]
pub fn l2_bits(cb: u32) -> u32 {
    cb - 3
}
#[inline(always)]
pub fn l2_entries(cb: u32) -> u64 {
    1u64 << l2_bits(cb)
}

/// refcount_bits = 1 << refcount_order
#[inline(always)]
pub fn refcount_bits(order: u32) -> u32 {
    1u32 << order
}

/// refcount_block_entries = (cluster_size * 8 / refcount_bits)
#[inline(always)]
pub fn rb_bits(cb: u32, order: u32) -> u32 {
    cb + 3 - order
}
#[inline(always)]
pub fn rb_entries(cb: u32, order: u32) -> u64 {
    1u64 << rb_bits(cb, order)
}

/// l2_index = (offset / cluster_size) % l2_entries
#[inline(always)]
pub fn l2_index(off: u64, cb: u32) -> u64 {
    (off >> cb) & (l2_entries(cb) - 1)
}
/// l1_index = (offset / cluster_size) / l2_entries
#[inline(always)]
pub fn l1_index(off: u64, cb: u32) -> u64 {
    (off >> cb) >> l2_bits(cb)
}
/// refcount_block_index = (offset / cluster_size) % refcount_block_entries
#[inline(always)]
pub fn rb_index(off: u64, cb: u32, order: u32) -> u64 {
    (off >> cb) & (rb_entries(cb, order) - 1)
}
/// refcount_table_index = (offset / cluster_size) / refcount_block_entries
#[inline(always)]
pub fn rt_index(off: u64, cb: u32, order: u32) -> u64 {
    (off >> cb) >> rb_bits(cb, order)
}

#[derive(Clone, Copy, PartialEq, Eq, Debug)]
pub enum Kind {
    /// standard cluster with a host offset, reads from the image file
    Data,
    /// reads as zeros (bit 0), with or without preallocation
    Zero,
    /// compressed cluster
    Compressed,
    /// offset 0, bit 63 clear: unallocated -> backing file if there is one, zeros otherwise
    Unallocated,
}

#[derive(Clone, Copy, Debug)]
pub struct Decoded {
    pub kind: Kind,
    /// host offset (byte granular for compressed clusters); 0 = none
    pub host: u64,
    pub copied: bool,
    /// compressed: upper bound of the number of bytes of compressed data
    pub comp_len: u64,
}

/// x = 62 - (cluster_bits - 8)
#[inline(always)]
pub fn comp_x(cb: u32) -> u32 {
    62 - (cb - 8)
}

/// Decode a v3 L2 entry (no extended L2 entries, no external data file).
pub fn decode_l2(raw: u64, cb: u32) -> Decoded {
    if raw & COMPRESSED != 0 {
        // Compressed Clusters Descriptor (x = 62 - (cluster_bits - 8)):
        //   Bit 0 - x-1: host cluster offset (bits beyond 55 must be 0)
        //       x - 61 : number of additional 512-byte sectors
        let x = comp_x(cb);
        let desc = raw & ((1u64 << 62) - 1);
        let host = desc & ((1u64 << x) - 1) & 0x00ff_ffff_ffff_ffff;
        let nb_sectors = desc >> x;
        // data starts at `host` and ends at the end of sector (host/512 + nb_sectors)
        let end = ((host >> 9) + nb_sectors + 1) << 9;
        Decoded { kind: Kind::Compressed, host, copied: false, comp_len: end - host }
    } else {
        let host = raw & STD_OFFSET_MASK;
        let copied = raw & COPIED != 0;
        if raw & ZERO_FLAG != 0 {
            Decoded { kind: Kind::Zero, host, copied: copied && host != 0, comp_len: 0 }
        } else if host == 0 && !copied {
            Decoded { kind: Kind::Unallocated, host: 0, copied: false, comp_len: 0 }
        } else {
            Decoded { kind: Kind::Data, host, copied, comp_len: 0 }
        }
    }
}

/// Is `raw` an L2 entry the specification permits (for an image without external data file)?
pub fn l2_valid(raw: u64, cb: u32) -> bool {
    if raw & COMPRESSED != 0 {
        // bit 63 must be 0 for compressed clusters; offset bits beyond 55 must be 0
        if raw & COPIED != 0 {
            return false;
        }
        let x = comp_x(cb);
        let desc = raw & ((1u64 << 62) - 1);
        let off_field = desc & ((1u64 << x) - 1);
        off_field >> 56 == 0
    } else {
        if raw & STD_RESERVED != 0 {
            return false;
        }
        let host = raw & STD_OFFSET_MASK;
        if host & (cluster_size(cb) - 1) != 0 {
            return false;
        }
        // "The offset may only be 0 with bit 63 set when an external data file is used."
        !(host == 0 && raw & COPIED != 0)
    }
}

/// Host clusters an L2 entry occupies: (offset of the first cluster, number of clusters);
/// (0,0) when it owns nothing.
pub fn l2_allocation(raw: u64, cb: u32) -> (u64, u64) {
    let d = decode_l2(raw, cb);
    match d.kind {
        Kind::Compressed => {
            let first = d.host >> cb;
            let last = (d.host + d.comp_len - 1) >> cb;
            (first << cb, last - first + 1)
        }
        _ => {
            if d.host == 0 {
                (0, 0)
            } else {
                (d.host, 1)
            }
        }
    }
}

/// Refcount of entry `i` in a refcount block stored in `bytes`:
/// widths >= 8 are big-endian words; "refcount_bits < 8": entry i lives in byte (i*w)/8 at bit
/// position (i*w)%8 counted from the least significant bit.
pub fn rc_get(bytes: &[u8], order: u32, i: usize) -> u64 {
    let w = 1usize << order;
    if w < 8 {
        let bit = i * w;
        ((bytes[bit / 8] >> (bit % 8)) as u64) & ((1u64 << w) - 1)
    } else {
        // big-endian words (written out per width: no loop for the model checker to unwind)
        let b = |k: usize| bytes[k] as u64;
        match w {
            8 => b(i),
            16 => (b(2 * i) << 8) | b(2 * i + 1),
            32 => (b(4 * i) << 24) | (b(4 * i + 1) << 16) | (b(4 * i + 2) << 8) | b(4 * i + 3),
            _ => {
                let o = 8 * i;
                (b(o) << 56) | (b(o + 1) << 48) | (b(o + 2) << 40) | (b(o + 3) << 32)
                    | (b(o + 4) << 24) | (b(o + 5) << 16) | (b(o + 6) << 8) | b(o + 7)
            }
        }
    }
}

/// largest value a refcount of this width can hold
pub fn rc_max(order: u32) -> u64 {
    if order >= 6 {
        u64::MAX
    } else {
        (1u64 << (1u32 << order)) - 1
    }
}

pub fn l1_valid(raw: u64, cb: u32) -> bool {
    raw & L1_RESERVED == 0 && (raw & L1_OFFSET_MASK) & (cluster_size(cb) - 1) == 0
}

pub fn rt_valid(raw: u64, cb: u32) -> bool {
    raw & RT_RESERVED == 0 && (raw & RT_OFFSET_MASK) & (cluster_size(cb) - 1) == 0
}

/// known numbers from the specification / qemu defaults, asserted by a harness
pub fn selftest_constants() {
    assert!(l2_entries(16) == 8192);
    assert!(rb_entries(16, 4) == 32768);
    assert!(rb_entries(9, 6) == 64);
    assert!(rb_entries(21, 0) == 1 << 24);
    assert!(comp_x(16) == 54);
    assert!(comp_x(9) == 61);
    assert!(l1_index(1u64 << 29, 16) == 1);
    assert!(l2_index((1u64 << 29) - 1, 16) == 8191);
    // qemu-img: 64 KiB clusters, compressed cluster at 0x50000 with 3 additional sectors
    let e = COMPRESSED | (3u64 << 54) | 0x50010;
    let d = decode_l2(e, 16);
    assert!(d.host == 0x50010 && d.comp_len == 4 * 512 - 0x10);
    let bytes = [0x12u8, 0x34, 0xab, 0xcd, 0, 0, 0, 1];
    assert!(rc_get(&bytes, 4, 1) == 0xabcd);
    assert!(rc_get(&bytes, 2, 1) == 0x1);
    assert!(rc_get(&bytes, 2, 0) == 0x2);
    assert!(rc_get(&bytes, 0, 1) == 1 && rc_get(&bytes, 0, 0) == 0);
    assert!(rc_get(&bytes, 6, 0) == 0x1234_abcd_0000_0001);
}
