// Environment shim for lifted await-free segments (DESIGN.md §2.3); child of `crate::dev`.
//
// A lifted segment is /repo's own source text compiled as a method of `KEnv`.  `KEnv` offers the
// names the text uses on `self` (info, free_cluster_offset, mark_need_flush, ...) and replaces
// what lies behind an `.await` -- locks, caches, the backend -- by synchronous recorders whose
// return values are nondeterministic within the callee's contract.
#![allow(dead_code, unused_imports)]
use super::*;
use crate::meta::{L1Entry, L2Entry, L2Table, Mapping, RefBlock, RefTableEntry, Table, TableEntry};
use std::cell::{Cell, RefCell, RefMut};

pub(crate) const MAX_REC: usize = 8;

/// error type of the shims: `?` converts it into Qcow2Error like any other source error, but it is
/// `Copy`, so collections of shim results carry no io::Error drop glue
#[derive(Clone, Copy, Debug, PartialEq, Eq)]
pub(crate) struct KErr;
pub(crate) type KResult<T> = Result<T, KErr>;
impl From<KErr> for crate::error::Qcow2Error {
    fn from(_: KErr) -> Self {
        // no message formatting (String::new() allocates nothing)
        crate::error::Qcow2Error::from_desc(String::new())
    }
}

/// fixed-capacity, stack-allocated stand-in for the Vec / FuturesUnordered that collects per-cluster
/// operations (heap-backed collections defeat CBMC's constant propagation)
pub(crate) struct KVec<T> {
    a: [Option<T>; MAX_REC],
    n: usize,
}
impl<T> KVec<T> {
    pub fn new() -> Self {
        KVec { a: [const { None }; MAX_REC], n: 0 }
    }
    pub fn push(&mut self, t: T) {
        assert!(self.n < MAX_REC, "harness bound: too many per-cluster operations");
        self.a[self.n] = Some(t);
        self.n += 1;
    }
    pub fn len(&self) -> usize {
        self.n
    }
    pub fn iter(&self) -> KVecRefIter<'_, T> {
        KVecRefIter { v: self, i: 0 }
    }
}
pub(crate) struct KVecIter<T> {
    v: KVec<T>,
    i: usize,
}
impl<T> Iterator for KVecIter<T> {
    type Item = T;
    fn next(&mut self) -> Option<T> {
        if self.i < self.v.n {
            self.i += 1;
            self.v.a[self.i - 1].take()
        } else {
            None
        }
    }
}
impl<T> IntoIterator for KVec<T> {
    type Item = T;
    type IntoIter = KVecIter<T>;
    fn into_iter(self) -> KVecIter<T> {
        KVecIter { v: self, i: 0 }
    }
}
pub(crate) struct KVecRefIter<'a, T> {
    v: &'a KVec<T>,
    i: usize,
}
impl<'a, T> Iterator for KVecRefIter<'a, T> {
    type Item = &'a T;
    fn next(&mut self) -> Option<&'a T> {
        if self.i < self.v.n {
            self.i += 1;
            self.v.a[self.i - 1].as_ref()
        } else {
            None
        }
    }
}
impl<'a, T> IntoIterator for &'a KVec<T> {
    type Item = &'a T;
    type IntoIter = KVecRefIter<'a, T>;
    fn into_iter(self) -> KVecRefIter<'a, T> {
        self.iter()
    }
}

/// A caller buffer reduced to what the lifted code can observe of it: a byte range.
#[derive(Clone, Copy, Debug, PartialEq, Eq)]
pub(crate) struct KBuf {
    pub start: usize,
    pub len: usize,
}

impl KBuf {
    pub fn new(len: usize) -> Self {
        KBuf { start: 0, len }
    }
    pub fn len(&self) -> usize {
        self.len
    }
    /// same contract as `<[u8]>::split_at`: panics if `mid > len`
    pub fn split_at(&self, mid: usize) -> (KBuf, KBuf) {
        assert!(mid <= self.len);
        (KBuf { start: self.start, len: mid }, KBuf { start: self.start + mid, len: self.len - mid })
    }
    pub fn split_at_mut(&mut self, mid: usize) -> (KBuf, KBuf) {
        self.split_at(mid)
    }
    /// `<[u8]>::fill`: content is not modelled by the range shim
    pub fn fill(&self, _v: u8) {}
}

/// one recorded environment call
#[derive(Clone, Copy, Debug)]
pub(crate) struct Rec {
    pub kind: u8,
    pub entry: u64,
    pub off: u64,
    pub len: usize,
    pub buf_start: usize,
    pub flags: u32,
}

pub(crate) const K_NONE: u8 = 0;
pub(crate) const K_READ: u8 = 1; // do_read(entry, guest off, buf)
pub(crate) const K_WRITE: u8 = 2; // do_write(entry, guest off, buf)
pub(crate) const K_FREE: u8 = 3; // free_clusters(host, count)
pub(crate) const K_FALLOC: u8 = 4; // call_fallocate(host off, len, flags)
pub(crate) const K_BACKEND_READ: u8 = 5; // call_read(host off, len)
pub(crate) const K_BACKEND_WRITE: u8 = 6; // call_write / flush_table(host off, len)
pub(crate) const K_NEWCLUSTER: u8 = 7; // mark_new_cluster(cluster number)
pub(crate) const K_POPULATE: u8 = 8; // populate_*_write_mapping(s)
pub(crate) const K_DISCARD1: u8 = 9; // __discard_one_cluster(guest)
pub(crate) const K_ALLOC: u8 = 10; // allocate_clusters(count)
pub(crate) const K_FLUSH_CACHE: u8 = 11; // flush_cache(cache, start key, end key)
pub(crate) const K_FSYNC: u8 = 12; // call_fsync
pub(crate) const K_GROW_RT: u8 = 13; // grow_reftable
pub(crate) const K_ISNEW: u8 = 15; // cluster_is_new(cluster number)
pub(crate) const K_ADD_SLICE: u8 = 16; // add_rb_slice(rt entry, key, slice_off)
pub(crate) const K_LEAF_DATA: u8 = 20; // do_read_data_file / do_write_data_file
pub(crate) const K_LEAF_ZERO: u8 = 21; // do_read_zero
pub(crate) const K_LEAF_BACKING: u8 = 22; // do_read_backing
pub(crate) const K_LEAF_COMPRESSED: u8 = 23; // do_read_compressed
pub(crate) const K_LEAF_COW: u8 = 24; // do_write_cow
pub(crate) const K_CLEARNEW: u8 = 25; // clear_new_cluster(cluster number)
pub(crate) const K_FLUSH_REFCOUNT: u8 = 26; // flush_refcount()
pub(crate) const K_FLUSH_MAPPING: u8 = 27; // flush_meta_generic(l1, l2cache, ..) from flush_meta
pub(crate) const K_TRYFROM: u8 = 28; // try_allocate_from(host, count)
pub(crate) const K_COMMIT_HEADER: u8 = 29; // commit_header (off = l1 offset, len = l1 entries in the header)
pub(crate) const K_FLUSH_ENTRIES: u8 = 30; // flush_cache_entries(evicted) (len = number of entries)
pub(crate) const K_GET_L1: u8 = 31; // get_l1_entry(split)
pub(crate) const K_GET_RB_FAIL: u8 = 32; // get_refblock failed (off = host cluster)
pub(crate) const K_SHRINK: u8 = 33; // cache.shrink() (flags = which cache)
pub(crate) const K_TRYALLOC: u8 = 14; // try_alloc_from_rb_slice (off,len = granted run; len 0 = None)

const NOREC: Rec = Rec { kind: K_NONE, entry: 0, off: 0, len: 0, buf_start: 0, flags: 0 };

/// stand-in for `AsyncLruCacheEntry<AsyncRwLock<T>>`: `.value().kwrite()` replaces
/// `.value().write().await`; the dirty flag is the real one's semantics (a bool)
pub(crate) struct KHandle<T> {
    pub v: KLock<T>,
    pub dirty: Cell<bool>,
}
pub(crate) struct KLock<T>(pub RefCell<T>);

impl<T> KHandle<T> {
    pub fn new(t: T) -> Self {
        KHandle { v: KLock(RefCell::new(t)), dirty: Cell::new(false) }
    }
    pub fn value(&self) -> &KLock<T> {
        &self.v
    }
    pub fn set_dirty(&self, d: bool) {
        self.dirty.set(d)
    }
    pub fn is_dirty(&self) -> bool {
        self.dirty.get()
    }
}
/// stand-in for one key of an AsyncLruCache: empty, or holding an entry
pub(crate) struct KSlot<T> {
    pub cell: std::cell::OnceCell<KHandle<T>>,
}
impl<T> KSlot<T> {
    pub fn empty() -> Self {
        KSlot { cell: std::cell::OnceCell::new() }
    }
    pub fn put_into_wmap_with<F: FnOnce() -> KLock<T>>(&self, _key: usize, f: F) -> &KHandle<T> {
        self.cell.get_or_init(|| KHandle { v: f(), dirty: Cell::new(false) })
    }
    /// nothing is evicted in the one-slot model
    pub fn commit_wmap(&self) -> Option<()> {
        None
    }
}

impl<T> KLock<T> {
    pub fn new(t: T) -> Self {
        KLock(RefCell::new(t))
    }
    pub fn kwrite(&self) -> RefMut<'_, T> {
        self.0.borrow_mut()
    }
    pub fn kread(&self) -> RefMut<'_, T> {
        self.0.borrow_mut()
    }
}

// ---- slice-load wrappers (segment SL)
#[derive(Clone, Copy, PartialEq, Eq)]
pub(crate) enum KWhich {
    L2 = 1,
    Rb = 2,
}
/// what a cache lookup hands back: which cache, which key
#[derive(Clone, Copy)]
pub(crate) struct KTok {
    pub key: usize,
    pub which: KWhich,
}
/// the evicted entries add_cache_slice reports
pub(crate) struct KKill {
    pub n: usize,
}
impl KKill {
    pub fn len(&self) -> usize {
        self.n
    }
}
/// stand-in for an AsyncLruCache in the lookup wrappers: the environment decides whether the
/// first and the second lookup hit
pub(crate) struct KProbe {
    pub which: KWhich,
    pub hit: [bool; 2],
    pub gets: Cell<usize>,
    pub keys: [Cell<usize>; 2],
}
impl KProbe {
    pub fn new(which: KWhich) -> Self {
        KProbe { which, hit: [false, false], gets: Cell::new(0), keys: [Cell::new(usize::MAX), Cell::new(usize::MAX)] }
    }
    pub fn get(&self, key: usize) -> Option<KTok> {
        let n = self.gets.get();
        self.gets.set(n + 1);
        if n < 2 {
            self.keys[n].set(key);
        }
        if n < 2 && self.hit[n] {
            Some(KTok { key, which: self.which })
        } else {
            None
        }
    }
}
/// stand-in for an AsyncLruCache in flush_cache: answers get_dirty_entries(start, end) with the
/// number of dirty entries the environment decided lie in that key range, and records the range
pub(crate) struct KDirtySet {
    pub n: usize,
    pub asked: Cell<(usize, usize)>,
}
impl KDirtySet {
    pub fn get_dirty_entries(&self, start: usize, end: usize) -> KKill {
        self.asked.set((start, end));
        KKill { n: self.n }
    }
}
impl KKill {
    pub fn is_empty(&self) -> bool {
        self.n == 0
    }
}
pub(crate) struct KSl {
    pub l2: KProbe,
    pub rb: KProbe,
    /// add_cache_slice: Some(n) = n entries evicted
    pub evict: Option<usize>,
    pub fail_add: bool,
    pub fail_flush_rc: bool,
    pub fail_flush: bool,
    pub fail_l1: bool,
    pub l1e: u64,
}

/// entries handed back by the (not lifted) mapping lookup
pub(crate) struct KEntries {
    pub e: [L2Entry; MAX_REC],
    pub n: usize,
}
impl core::ops::Index<usize> for KEntries {
    type Output = L2Entry;
    fn index(&self, i: usize) -> &L2Entry {
        assert!(i < self.n); // Vec bounds check
        &self.e[i]
    }
}

/// stand-in for the L2 slice cache: two adjacent slices (keys base, base+1), each present or not
pub(crate) struct KCache {
    pub base: usize,
    pub s: [Option<KHandle<L2Table>>; 2],
    pub cached: [bool; 2],
}
impl KCache {
    pub fn empty() -> Self {
        KCache { base: 0, s: [None, None], cached: [false, false] }
    }
    pub fn get(&self, key: usize) -> Option<&KHandle<L2Table>> {
        if key == self.base && self.cached[0] {
            self.s[0].as_ref()
        } else if key == self.base + 1 && self.cached[1] {
            self.s[1].as_ref()
        } else {
            None
        }
    }
    /// what a load from disk yields
    pub fn load(&self, key: usize) -> &KHandle<L2Table> {
        assert!(key == self.base || key == self.base + 1, "harness bound: lookup outside the two modelled slices");
        self.s[key - self.base].as_ref().unwrap()
    }
}

/// stand-in for `new_cluster: AsyncRwLock<HashMap<u64, AsyncRwLock<bool>>>`: at most one registered
/// cluster; the bool is "its zeroing has been taken care of"
pub(crate) struct KNewCluster {
    pub key: u64,
    pub present: Cell<bool>,
    pub flag: KLock<bool>,
}
impl KNewCluster {
    pub fn kread(&self) -> &KNewCluster {
        self
    }
    pub fn remove(&self, key: &u64) {
        if *key == self.key {
            self.present.set(false);
        }
    }
    pub fn get(&self, key: &u64) -> Option<&KLock<bool>> {
        if self.present.get() && *key == self.key {
            Some(&self.flag)
        } else {
            None
        }
    }
}

/// two-slot stand-in for the local `HashMap<u64, guard>` of flush_cache_entries
pub(crate) struct KMap<V> {
    pub k: [Option<u64>; 2],
    pub v: [Option<V>; 2],
}
pub(crate) enum KEntry<'a, V> {
    Occupied,
    Vacant(KVacant<'a, V>),
}
pub(crate) struct KVacant<'a, V> {
    m: &'a mut KMap<V>,
    key: u64,
}
impl<V> KMap<V> {
    pub fn new() -> Self {
        KMap { k: [None, None], v: [None, None] }
    }
    pub fn entry(&mut self, key: u64) -> KEntry<'_, V> {
        if self.k[0] == Some(key) || self.k[1] == Some(key) {
            KEntry::Occupied
        } else {
            KEntry::Vacant(KVacant { m: self, key })
        }
    }
}
impl<'a, V> KVacant<'a, V> {
    pub fn insert(self, v: V) {
        let i = if self.m.k[0].is_none() { 0 } else { 1 };
        assert!(self.m.k[i].is_none(), "harness bound: more than two clusters");
        self.m.k[i] = Some(self.key);
        self.m.v[i] = Some(v);
    }
}
pub(crate) struct KMapIter<V> {
    m: KMap<V>,
    i: usize,
}
impl<V> Iterator for KMapIter<V> {
    type Item = (u64, V);
    fn next(&mut self) -> Option<(u64, V)> {
        while self.i < 2 {
            let i = self.i;
            self.i += 1;
            if let (Some(k), Some(v)) = (self.m.k[i], self.m.v[i].take()) {
                return Some((k, v));
            }
        }
        None
    }
}
impl<V> IntoIterator for KMap<V> {
    type Item = (u64, V);
    type IntoIter = KMapIter<V>;
    fn into_iter(self) -> KMapIter<V> {
        KMapIter { m: self, i: 0 }
    }
}

/// a lazily created backend request: nothing is sent until `kjoin` runs it
#[derive(Clone, Copy)]
pub(crate) enum KDefer<'a> {
    Fallocate(&'a KEnv, u64, usize, u32),
    Write(&'a KEnv, u64, usize),
}
pub(crate) fn kdefer_fallocate(env: &KEnv, off: u64, len: usize, flags: u32) -> KDefer<'_> {
    KDefer::Fallocate(env, off, len, flags)
}
pub(crate) fn kdefer_flush<'a, B: Table>(env: &'a KEnv, t: &B, size: usize) -> KDefer<'a> {
    KDefer::Write(env, t.get_offset().unwrap(), size)
}
/// join_all: runs the requests (in order; completion order is not modelled)
pub(crate) fn kjoin(v: KVec<KDefer<'_>>) -> KVec<KResult<()>> {
    let mut out = KVec::new();
    for d in v {
        match d {
            KDefer::Fallocate(env, off, len, flags) => {
                env.rec(Rec { kind: K_FALLOC, off, len, flags, ..NOREC });
                out.push(Ok(()));
            }
            KDefer::Write(env, off, len) => {
                env.rec(Rec { kind: K_BACKEND_WRITE, off, len, ..NOREC });
                if env.fail_write.get() {
                    out.push(Err(KErr));
                } else {
                    out.push(Ok(()));
                }
            }
        }
    }
    out
}

pub(crate) struct KEnv {
    pub new_cluster: KNewCluster,
    pub l2cache: KCache,
    pub info: Qcow2Info,
    pub free_cluster_offset: AtomicU64,
    pub need_flush: AtomicBool,

    pub recs: RefCell<[Rec; MAX_REC]>,
    pub nrec: Cell<usize>,
    /// set by a segment's epilogue: the lifted text ran to its end (did not return early)
    pub passed: Cell<bool>,
    pub out: Cell<[u64; 6]>,

    // nondeterministic environment state
    pub entries: [L2Entry; MAX_REC],
    pub l1_entry: L1Entry,
    pub rt_entry: RefTableEntry,
    pub l2_slice: Option<KHandle<L2Table>>,
    pub rb_slice: Option<KHandle<RefBlock>>,
    pub rb_slice2: Option<KHandle<RefBlock>>,
    pub rb_key2: usize,
    pub fail_get_rb: Cell<bool>,
    /// flush_table alone fails / flush_refcount fails (fail_write makes every write fail)
    pub fail_table: Cell<bool>,
    pub fail_rc: Cell<bool>,
    /// host offset the allocator shim hands out
    pub alloc_off: u64,
    pub alloc_cnt: usize,
    pub cache_dirty: Cell<bool>,
    pub fail_write: Cell<bool>,
    pub cluster_new: Cell<bool>,
    pub fail_falloc: Cell<bool>,
    pub fail_read: Cell<bool>,
    pub added_rb: RefCell<Option<RefBlock>>,
    /// a byte of the last written buffer at a nondeterministic index (universally quantified probe)
    pub write_probe: Cell<u8>,
    pub write_probe_idx: Cell<usize>,
    pub cow_src: RefCell<[u8; 1024]>,
    pub backing_file: Option<KBacking>,
    pub passes_left: Cell<usize>,
    pub l1_shim: u8,
    pub header: KLock<crate::meta::Qcow2Header>,
    pub sl: KSl,
    /// the device's refcount table behind its lock (flush_refcount)
    pub fr_reftable: Option<KLock<crate::meta::RefTable>>,
    pub fr_probe: Cell<u64>,
}

/// stand-in for the boxed backing device
pub(crate) struct KBacking;

impl KEnv {
    pub fn new(info: Qcow2Info) -> Self {
        KEnv {
            new_cluster: KNewCluster { key: 0, present: Cell::new(false), flag: KLock::new(false) },
            l2cache: KCache::empty(),
            info,
            free_cluster_offset: AtomicU64::new(0),
            need_flush: AtomicBool::new(false),
            recs: RefCell::new([NOREC; MAX_REC]),
            nrec: Cell::new(0),
            passed: Cell::new(false),
            out: Cell::new([0; 6]),
            entries: [L2Entry(0); MAX_REC],
            l1_entry: L1Entry::default(),
            rt_entry: RefTableEntry(0),
            l2_slice: None,
            rb_slice: None,
            rb_slice2: None,
            rb_key2: 0,
            fail_get_rb: Cell::new(false),
            fail_table: Cell::new(false),
            fail_rc: Cell::new(false),
            alloc_off: 0,
            alloc_cnt: 0,
            cache_dirty: Cell::new(false),
            fail_write: Cell::new(false),
            cluster_new: Cell::new(false),
            fail_falloc: Cell::new(false),
            fail_read: Cell::new(false),
            added_rb: RefCell::new(None),
            write_probe: Cell::new(0),
            write_probe_idx: Cell::new(0),
            cow_src: RefCell::new([0; 1024]),
            backing_file: None,
            passes_left: Cell::new(0),
            l1_shim: 0,
            header: KLock::new(crate::meta::verif_header::mk_header(16, 4, 0, 1, 1, false)),
            sl: KSl { l2: KProbe::new(KWhich::L2), rb: KProbe::new(KWhich::Rb), evict: None, fail_add: false,
                      fail_flush_rc: false, fail_flush: false, fail_l1: false, l1e: 0 },
            fr_reftable: None,
            fr_probe: Cell::new(0),
        }
    }

    pub fn rec(&self, r: Rec) {
        let n = self.nrec.get();
        assert!(n < MAX_REC, "recorder overflow: harness bound too small");
        self.recs.borrow_mut()[n] = r;
        self.nrec.set(n + 1);
    }
    pub fn get_rec(&self, i: usize) -> Rec {
        self.recs.borrow()[i]
    }
    pub fn count(&self, kind: u8) -> usize {
        let r = self.recs.borrow();
        let mut c = 0;
        let mut i = 0;
        while i < MAX_REC {
            if i < self.nrec.get() && r[i].kind == kind {
                c += 1;
            }
            i += 1;
        }
        c
    }

    /// index of the first record of `kind` (usize::MAX if none)
    pub fn first(&self, kind: u8) -> usize {
        let r = self.recs.borrow();
        let mut i = 0;
        while i < MAX_REC {
            if i < self.nrec.get() && r[i].kind == kind {
                return i;
            }
            i += 1;
        }
        usize::MAX
    }

    // ---- names the lifted text uses on `self` -------------------------------------------
    #[inline(always)]
    pub fn mark_need_flush(&self, val: bool) {
        self.need_flush.store(val, Ordering::Relaxed);
    }
    pub fn need_flush_meta(&self) -> bool {
        self.need_flush.load(Ordering::Relaxed)
    }

    // ---- shims for awaited calls (k_<name> replaces self.<name>(..).await) ----------------
    pub fn k_get_l2_entry(&self, _virtual_offset: u64) -> KResult<L2Entry> {
        Ok(self.entries[0])
    }
    pub fn k_populate_single_write_mapping(&self, off: u64) -> KResult<L2Entry> {
        self.rec(Rec { kind: K_POPULATE, off, len: 0, ..NOREC });
        Ok(self.entries[0])
    }
    fn entries_for(&self, off: u64, len: usize) -> KEntries {
        // contract of get_l2_entries / populate_write_mappings: one entry per guest cluster
        // touched by [off, off+len)
        let cb = self.info.cluster_bits();
        let first = off >> cb;
        let last = (off + len as u64 - 1) >> cb;
        let n = (last - first + 1) as usize;
        assert!(n <= MAX_REC, "harness bound: request spans too many clusters");
        KEntries { e: self.entries, n }
    }
    pub fn k_get_l2_entries(&self, off: u64, len: usize) -> KResult<KEntries> {
        Ok(self.entries_for(off, len))
    }
    pub fn k_populate_write_mappings(&self, off: u64, len: usize) -> KResult<KEntries> {
        self.rec(Rec { kind: K_POPULATE, off, len, ..NOREC });
        Ok(self.entries_for(off, len))
    }
    /// a backend that completes every request: the whole piece is read
    pub fn k_do_read(&self, entry: L2Entry, off: u64, buf: KBuf) -> KResult<usize> {
        self.rec(Rec { kind: K_READ, entry: entry.0, off, len: buf.len, buf_start: buf.start, flags: 0 });
        Ok(buf.len)
    }
    pub fn k_do_write(&self, entry: L2Entry, off: u64, buf: KBuf) -> KResult<()> {
        self.rec(Rec { kind: K_WRITE, entry: entry.0, off, len: buf.len, buf_start: buf.start, flags: 0 });
        Ok(())
    }
    pub fn k___discard_one_cluster(&self, guest: u64) -> KResult<()> {
        self.rec(Rec { kind: K_DISCARD1, off: guest, ..NOREC });
        Ok(())
    }
    pub fn k_ensure_l2_offset(&self, _split: &crate::meta::SplitGuestOffset) -> KResult<L1Entry> {
        Ok(self.l1_entry)
    }
    pub fn k_get_l2_slice_slow(&self, _l1_e: &L1Entry, split: &crate::meta::SplitGuestOffset) -> KResult<&KHandle<L2Table>> {
        Ok(self.l2cache.load(split.l2_slice_key(&self.info)))
    }
    pub fn k_ensure_refblock_offset(&self, _cls: &HostCluster) -> KResult<RefTableEntry> {
        Ok(self.rt_entry)
    }
    /// try_alloc_from_rb_slice by CONTRACT (the postcondition the alloc-step harnesses discharge for
    /// the real function): refuses requests crossing the slice; otherwise nothing, or a run of
    /// 1..=count clusters (exactly count when fixed_start) inside this slice at or after `cls`
    pub fn k_try_alloc_from_rb_slice(&self, _rt_e: &RefTableEntry, cls: &HostCluster, count: usize, fixed: bool) -> KResult<Option<(u64, usize)>> {
        let info = &self.info;
        let idx = cls.rb_slice_index(info);
        let entries = info.rb_slice_entries() as usize;
        let calls = self.count(K_TRYALLOC);
        kani::assume(calls < 4); // harness bound: at most 4 allocator steps per request
        if idx + count > entries {
            self.rec(Rec { kind: K_TRYALLOC, off: 0, len: 0, buf_start: cls.0 as usize, ..NOREC });
            return Ok(None);
        }
        let some: bool = kani::any();
        if !some {
            self.rec(Rec { kind: K_TRYALLOC, off: 0, len: 0, buf_start: cls.0 as usize, ..NOREC });
            return Ok(None);
        }
        let skip: usize = kani::any();
        let n: usize = kani::any();
        kani::assume(n >= 1 && n <= count && skip < entries && idx + skip + n <= entries);
        if fixed {
            kani::assume(n == count);
        }
        let off = cls.rb_slice_host_start(info) + (((idx + skip) as u64) << info.cluster_bits());
        self.rec(Rec { kind: K_TRYALLOC, off, len: n, buf_start: cls.0 as usize, ..NOREC });
        Ok(Some((off, n)))
    }
    pub fn k_cluster_is_new(&self, cluster: u64) -> bool {
        self.rec(Rec { kind: K_ISNEW, off: cluster, ..NOREC });
        self.cluster_new.get()
    }
    pub fn k_get_l1_entry(&self, _split: &crate::meta::SplitGuestOffset) -> KResult<L1Entry> {
        Ok(self.l1_entry)
    }
    pub fn k_get_l2_slice(&self, _split: &crate::meta::SplitGuestOffset) -> KResult<&KHandle<L2Table>> {
        Ok(self.l2_slice.as_ref().unwrap())
    }
    pub fn k_free_clusters(&self, host: u64, count: usize) -> KResult<()> {
        self.rec(Rec { kind: K_FREE, off: host, len: count, ..NOREC });
        Ok(())
    }
    pub fn k_call_fallocate(&self, off: u64, len: usize, flags: u32) -> KResult<()> {
        self.rec(Rec { kind: K_FALLOC, off, len, flags, ..NOREC });
        Ok(())
    }
    pub fn k_get_reftable_entry(&self, _rt_idx: usize) -> RefTableEntry {
        self.rt_entry
    }
    pub fn k_get_refblock(&self, cls: &HostCluster, _rt_e: &RefTableEntry) -> KResult<&KHandle<RefBlock>> {
        // two-slice harnesses: the slice after the modelled one is `rb_slice2`
        if let Some(s2) = self.rb_slice2.as_ref() {
            if self.fail_get_rb.get() {
                self.rec(Rec { kind: K_GET_RB_FAIL, off: cls.0, ..NOREC });
                return Err(KErr);
            }
            if cls.rb_slice_key(&self.info) == self.rb_key2 {
                return Ok(s2);
            }
        }
        Ok(self.rb_slice.as_ref().unwrap())
    }
    pub fn k_mark_new_cluster(&self, cluster: u64) {
        self.rec(Rec { kind: K_NEWCLUSTER, off: cluster, ..NOREC });
    }
    pub fn k_allocate_cluster(&self) -> KResult<Option<(u64, usize)>> {
        self.rec(Rec { kind: K_ALLOC, len: 1, ..NOREC });
        Ok(Some((self.alloc_off, 1)))
    }
    pub fn k_allocate_clusters(&self, count: usize) -> KResult<Option<(u64, usize)>> {
        self.rec(Rec { kind: K_ALLOC, len: count, ..NOREC });
        Ok(Some((self.alloc_off, self.alloc_cnt)))
    }
    pub fn k_call_read<B: KLen + ?Sized>(&self, off: u64, buf: &mut B) -> KResult<usize> {
        self.rec(Rec { kind: K_BACKEND_READ, off, len: buf.klen(), ..NOREC });
        Ok(buf.klen())
    }
    pub fn k_call_write<B: KLen + ?Sized>(&self, off: u64, buf: &B) -> KResult<()> {
        self.rec(Rec { kind: K_BACKEND_WRITE, off, len: buf.klen(), ..NOREC });
        if self.fail_write.get() {
            return Err(KErr);
        }
        Ok(())
    }
    /// same, with the library's own error type (for call sites that hand the error on verbatim)
    pub fn k_call_write_q<B: KLen + ?Sized>(&self, off: u64, buf: &B) -> Qcow2Result<()> {
        self.rec(Rec { kind: K_BACKEND_WRITE, off, len: buf.klen(), ..NOREC });
        if buf.klen() > 0 {
            let i: usize = kani::any();
            kani::assume(i < buf.klen());
            self.write_probe.set(buf.kbyte(i));
            self.write_probe_idx.set(i);
        }
        if self.fail_write.get() {
            return Err(crate::error::Qcow2Error::from_desc(String::new()));
        }
        Ok(())
    }
    pub fn k_call_read_q<B: KLen + ?Sized>(&self, off: u64, buf: &mut B) -> Qcow2Result<usize> {
        self.rec(Rec { kind: K_BACKEND_READ, off, len: buf.klen(), ..NOREC });
        if self.fail_read.get() {
            return Err(crate::error::Qcow2Error::from_desc(String::new()));
        }
        Ok(buf.klen())
    }
    /// a read that really stores into the caller's buffer (one symbolic position), so that the
    /// model checker validates the raw slice the caller built
    pub fn k_call_read_fill(&self, off: u64, buf: &mut [u8]) -> Qcow2Result<usize> {
        self.rec(Rec { kind: K_BACKEND_READ, off, len: buf.len(), ..NOREC });
        if self.fail_read.get() {
            return Err(crate::error::Qcow2Error::from_desc(String::new()));
        }
        if buf.len() > 0 {
            let i: usize = kani::any();
            kani::assume(i < buf.len());
            buf[i] = self.write_probe.get();
            self.write_probe_idx.set(i);
        }
        Ok(buf.len())
    }
    /// source cluster content for the copy-on-write shims (decompressed data / backing data)
    pub fn k_do_read_compressed(&self, _m: Mapping, off_in_cls: usize, buf: &mut crate::helpers::Qcow2IoBuf<u8>) -> KResult<usize> {
        self.rec(Rec { kind: K_READ, off: off_in_cls as u64, len: buf.len(), ..NOREC });
        let src = self.cow_src.borrow();
        let n = buf.len();
        buf[..].copy_from_slice(&src[..n]);
        Ok(n)
    }
    pub fn k_backing_read(&self, buf: &mut crate::helpers::Qcow2IoBuf<u8>, off: u64) -> KResult<usize> {
        self.rec(Rec { kind: K_READ, off, len: buf.len(), flags: 1, ..NOREC });
        let src = self.cow_src.borrow();
        let n = buf.len();
        buf[..].copy_from_slice(&src[..n]);
        Ok(n)
    }
    // per-cluster leaf operations of the read / write dispatch (recorded)
    pub fn k_do_read_data_file(&self, m: Mapping, off_in_cls: usize, buf: KBuf) -> Qcow2Result<usize> {
        self.rec(Rec { kind: K_LEAF_DATA, entry: m.cluster_offset.unwrap_or(u64::MAX), off: off_in_cls as u64, len: buf.len, ..NOREC });
        core::mem::forget(m);
        Ok(buf.len)
    }
    pub fn k_do_read_zero(&self, buf: KBuf) -> Qcow2Result<usize> {
        self.rec(Rec { kind: K_LEAF_ZERO, len: buf.len, ..NOREC });
        Ok(buf.len)
    }
    pub fn k_do_read_backing(&self, m: Mapping, off_in_cls: usize, buf: KBuf) -> Qcow2Result<usize> {
        self.rec(Rec { kind: K_LEAF_BACKING, entry: m.cluster_offset.unwrap_or(u64::MAX), off: off_in_cls as u64, len: buf.len, ..NOREC });
        core::mem::forget(m);
        Ok(buf.len)
    }
    pub fn k_do_read_compressed_kb(&self, m: Mapping, off_in_cls: usize, buf: KBuf) -> Qcow2Result<usize> {
        self.rec(Rec { kind: K_LEAF_COMPRESSED, entry: m.cluster_offset.unwrap_or(u64::MAX), off: off_in_cls as u64, len: buf.len,
                       buf_start: m.compressed_length.unwrap_or(0), ..NOREC });
        core::mem::forget(m);
        Ok(buf.len)
    }
    pub fn k_do_write_data_file(&self, virt_off: u64, m: &Mapping, cow: Option<&Mapping>, buf: KBuf) -> Qcow2Result<()> {
        self.rec(Rec { kind: K_LEAF_DATA, entry: m.cluster_offset.unwrap_or(u64::MAX), off: virt_off, len: buf.len,
                       flags: cow.is_some() as u32, ..NOREC });
        Ok(())
    }
    pub fn k_do_write_cow(&self, off: u64, m: &Mapping, buf: KBuf) -> Qcow2Result<()> {
        self.rec(Rec { kind: K_LEAF_COW, entry: m.cluster_offset.unwrap_or(u64::MAX), off, len: buf.len, ..NOREC });
        Ok(())
    }
    pub fn k_do_compressed_cow(&self, off_in_cls: usize, buf: &[u8], host_off: u64, _m: &Mapping) -> Qcow2Result<()> {
        self.rec(Rec { kind: K_LEAF_COW, entry: host_off, off: off_in_cls as u64, len: buf.len(), flags: 1, ..NOREC });
        Ok(())
    }
    pub fn k_do_back_cow(&self, virt_off: u64, off_in_cls: usize, buf: &[u8], host_off: u64) -> Qcow2Result<()> {
        self.rec(Rec { kind: K_LEAF_COW, entry: host_off, off: off_in_cls as u64, len: buf.len(), flags: 2, buf_start: virt_off as usize, ..NOREC });
        Ok(())
    }
    pub fn k_clear_new_cluster(&self, key: u64) {
        self.rec(Rec { kind: K_CLEARNEW, off: key, ..NOREC });
    }
    /// allocate one cluster and map it (what alloc_and_map_cluster does, decided separately by
    /// c03_single_write_mapping), recorded
    pub fn k_alloc_and_map_cluster_rec(&self, split: &crate::meta::SplitGuestOffset, l2_table: &mut RefMut<'_, L2Table>) -> KResult<Mapping> {
        self.rec(Rec { kind: K_ALLOC, off: self.alloc_off, len: 1, ..NOREC });
        let _ = l2_table.map_cluster(split.l2_slice_index(&self.info), self.alloc_off);
        Ok(l2_table.get_mapping(&self.info, split))
    }
    pub fn k_do_write_data_file_s(&self, virt_off: u64, m: &Mapping, cow: Option<&Mapping>, buf: &[u8]) -> Qcow2Result<()> {
        self.rec(Rec { kind: K_LEAF_DATA, entry: m.cluster_offset.unwrap_or(u64::MAX), off: virt_off, len: buf.len(),
                       flags: cow.is_some() as u32, ..NOREC });
        if self.fail_write.get() {
            return Err(crate::error::Qcow2Error::from_desc(String::new()));
        }
        Ok(())
    }
    pub fn k_write_at_for_cow(&self, buf: &[u8], off: u64) -> Qcow2Result<()> {
        self.rec(Rec { kind: K_WRITE, off, len: buf.len(), ..NOREC });
        Ok(())
    }
    pub fn k_flush_refcount(&self) -> KResult<()> {
        self.rec(Rec { kind: K_FLUSH_REFCOUNT, flags: self.need_flush_meta() as u32, ..NOREC });
        if self.fail_rc.get() {
            return Err(KErr);
        }
        Ok(())
    }
    /// flush_meta_generic as seen by flush_meta: "done" after `passes_left` more passes
    pub fn k_flush_meta_generic<F: Fn(u64) -> usize>(&self, _l1: &u8, _key_fn: F) -> KResult<bool> {
        self.rec(Rec { kind: K_FLUSH_MAPPING, flags: self.need_flush_meta() as u32, ..NOREC });
        let left = self.passes_left.get();
        if left == 0 {
            Ok(true)
        } else {
            self.passes_left.set(left - 1);
            Ok(false)
        }
    }
    /// try_allocate_from(host, cnt) as seen by allocate_clusters: the refcount block at `host` is
    /// full `full_blocks` more times, then a run is granted inside the block asked
    pub fn k_try_allocate_from(&self, host: u64, cnt: usize) -> KResult<Option<(u64, usize)>> {
        self.rec(Rec { kind: K_TRYFROM, off: host, len: cnt, ..NOREC });
        let left = self.passes_left.get();
        if left > 0 {
            self.passes_left.set(left - 1);
            return Ok(None);
        }
        // contract of try_allocate_from: a run of 1..=cnt clusters at or after `host`, inside the
        // refcount block that contains `host`
        let info = &self.info;
        let cs = 1u64 << info.cluster_bits();
        let skip: u64 = kani::any();
        let n: usize = kani::any();
        kani::assume(n >= 1 && n <= cnt && skip < (1 << 30));
        let end = HostCluster(host).rb_host_end(info);
        let start = (host & !(cs - 1)) + skip * cs;
        kani::assume(start + (n as u64) * cs <= end);
        Ok(Some((start, n)))
    }
    // ---- slice-load wrappers (segment SL): add_cache_slice and the write-back of what it evicted
    pub fn k_add_cache_slice<B: Table, E: TableEntry>(&self, which: KWhich, top_e: &E, key: usize, slice_off: usize, slice: B) -> KResult<Option<KKill>> {
        self.rec(Rec { kind: K_ADD_SLICE, entry: top_e.get_value(), off: slice_off as u64, len: slice.byte_size(),
                       buf_start: key, flags: (which as u32) | ((slice.entries() as u32) << 2) });
        core::mem::forget(slice);
        if self.sl.fail_add {
            return Err(KErr);
        }
        Ok(match self.sl.evict {
            Some(n) => Some(KKill { n }),
            None => None,
        })
    }
    pub fn k_sl_flush_refcount(&self) -> Qcow2Result<()> {
        self.rec(Rec { kind: K_FLUSH_REFCOUNT, ..NOREC });
        if self.sl.fail_flush_rc {
            return Err(crate::error::Qcow2Error::from_desc(String::new()));
        }
        Ok(())
    }
    pub fn k_sl_flush_cache_entries(&self, v: KKill) -> Qcow2Result<()> {
        self.rec(Rec { kind: K_FLUSH_ENTRIES, len: v.n, ..NOREC });
        if self.sl.fail_flush {
            return Err(crate::error::Qcow2Error::from_desc(String::new()));
        }
        Ok(())
    }
    pub fn k_sl_get_l1_entry(&self, _split: &crate::meta::SplitGuestOffset) -> KResult<L1Entry> {
        self.rec(Rec { kind: K_GET_L1, ..NOREC });
        if self.sl.fail_l1 {
            return Err(KErr);
        }
        Ok(unsafe { core::mem::transmute::<u64, L1Entry>(self.sl.l1e) })
    }
    // ---- flush drivers (segment FR): flush_meta_generic as seen by flush_refcount / flush_mapping.
    // Records which table (host offset), which cache, and what the key function answers at the
    // probe offset; "done" after `passes_left` more passes.
    pub fn k_fr_flush_meta_generic<A: Table, F: Fn(u64) -> usize>(&self, rt: &A, which: KWhich, key_fn: F) -> Qcow2Result<bool> {
        self.rec(Rec { kind: K_FLUSH_MAPPING, entry: rt.get_offset().unwrap_or(u64::MAX), off: key_fn(self.fr_probe.get()) as u64,
                       len: rt.entries(), buf_start: 0, flags: which as u32 });
        if self.fail_write.get() {
            return Err(crate::error::Qcow2Error::from_desc(String::new()));
        }
        let left = self.passes_left.get();
        if left == 0 {
            Ok(true)
        } else {
            self.passes_left.set(left - 1);
            Ok(false)
        }
    }
    // ---- cache shrink (segment SC)
    pub fn k_sc_flush_meta(&self) -> Qcow2Result<()> {
        self.rec(Rec { kind: K_FLUSH_MAPPING, ..NOREC });
        if self.fail_write.get() {
            return Err(crate::error::Qcow2Error::from_desc(String::new()));
        }
        Ok(())
    }
    pub fn k_sc_shrink(&self, which: KWhich) {
        self.rec(Rec { kind: K_SHRINK, flags: which as u32, ..NOREC });
    }
    // ---- L1 header-entry extension
    pub fn k_commit_header<F: FnOnce(&mut crate::meta::Qcow2Header)>(&self, h: &mut RefMut<'_, crate::meta::Qcow2Header>, _rollback: F) -> Qcow2Result<()> {
        self.rec(Rec { kind: K_COMMIT_HEADER, off: h.l1_table_offset(), len: h.l1_table_entries(), ..NOREC });
        if self.fail_write.get() {
            // contract of commit_header (decided on its own lifted body, segment H0): on a failed
            // write the rollback closure has run and the error is returned
            _rollback(&mut **h);
            return Err(crate::error::Qcow2Error::from_desc(String::new()));
        }
        Ok(())
    }
    pub fn k_flush_mapping(&self, _l1: &crate::meta::L1Table) -> KResult<()> {
        self.rec(Rec { kind: K_FLUSH_MAPPING, ..NOREC });
        Ok(())
    }
    pub fn k_flush_top_table_l1(&self, _l1: &crate::meta::L1Table) -> KResult<()> {
        self.rec(Rec { kind: K_BACKEND_WRITE, ..NOREC });
        Ok(())
    }
    /// the backend's fallocate: fails or succeeds (environment decides)
    pub fn k_file_fallocate(&self, off: u64, len: usize, flags: u32) -> KResult<()> {
        self.rec(Rec { kind: K_FALLOC, off, len, flags, ..NOREC });
        if self.fail_falloc.get() {
            Err(KErr)
        } else {
            Ok(())
        }
    }
    /// add_rb_slice(rt_e, key, slice_off, slice): keeps the slice for inspection
    pub fn k_add_rb_slice(&self, rt_e: &RefTableEntry, key: usize, slice_off: usize, slice: RefBlock) -> KResult<()> {
        self.rec(Rec { kind: K_ADD_SLICE, entry: rt_e.into_plain(), off: key as u64, len: slice_off, ..NOREC });
        *self.added_rb.borrow_mut() = Some(slice);
        Ok(())
    }
    /// flush_table(t, start, size): a write of `size` bytes at the table's host offset + start
    pub fn k_flush_table<B: Table>(&self, t: &B, start: u32, size: usize) -> KResult<()> {
        self.rec(Rec { kind: K_BACKEND_WRITE, off: t.get_offset().unwrap() + start as u64, len: size,
                       buf_start: start as usize, ..NOREC });
        if self.fail_write.get() || self.fail_table.get() {
            return Err(KErr);
        }
        Ok(())
    }
    pub fn k_flush_table_q<B: Table>(&self, t: &B, start: u32, size: usize) -> Qcow2Result<()> {
        Ok(self.k_flush_table(t, start, size)?)
    }
    pub fn k_flush_cache_q(&self, start: usize, end: usize) -> Qcow2Result<bool> {
        Ok(self.k_flush_cache(start, end)?)
    }
    pub fn k_call_fsync_q(&self, off: u64, len: usize, flags: u32) -> Qcow2Result<()> {
        Ok(self.k_call_fsync(off, len, flags)?)
    }
    /// flush_cache(cache, start, end): flush the dirty slices with start <= key < end
    pub fn k_flush_cache(&self, start: usize, end: usize) -> KResult<bool> {
        self.rec(Rec { kind: K_FLUSH_CACHE, off: start as u64, len: end, ..NOREC });
        Ok(self.cache_dirty.get())
    }
    pub fn k_call_fsync(&self, off: u64, len: usize, flags: u32) -> KResult<()> {
        self.rec(Rec { kind: K_FSYNC, off, len, flags, ..NOREC });
        Ok(())
    }
    pub fn k_grow_reftable<R>(&self, _old: &R, grown: &mut crate::meta::RefTable) -> KResult<()> {
        self.rec(Rec { kind: K_GROW_RT, len: grown.entries(), ..NOREC });
        Ok(())
    }
}

/// length of whatever a backend request is handed
pub(crate) trait KLen {
    fn klen(&self) -> usize;
    fn kbyte(&self, i: usize) -> u8;
}
impl KLen for [u8] {
    fn klen(&self) -> usize {
        self.len()
    }
    fn kbyte(&self, i: usize) -> u8 {
        self[i]
    }
}
impl KLen for Vec<u8> {
    fn klen(&self) -> usize {
        self.len()
    }
    fn kbyte(&self, i: usize) -> u8 {
        self[i]
    }
}
impl KLen for crate::helpers::Qcow2IoBuf<u8> {
    fn klen(&self) -> usize {
        self.len()
    }
    fn kbyte(&self, i: usize) -> u8 {
        self[i]
    }
}
