// Native differential self-test of the segment lifter (DESIGN.md §2.3, "translator validation").
// Not a harness: ordinary #[test]s, run natively by `bin/selftest` through `cargo kani playback`
// (which compiles with cfg(kani) and Kani's library in concrete mode).  They push a table of
// arguments through BOTH the real async entry points of a real device on a real temp image and
// the lifted validation prologues, and require the same outcome.  This validates the lifting;
// it decides nothing.
// @module-needs env header seg:W0 seg:R0 seg:D0
#![allow(dead_code, unused_imports)]
use super::*;
use crate::dev::verif_env::*;
use crate::meta::Qcow2Header;
use crate::utils::{make_temp_qcow2_img, qcow2_setup_dev_tokio};

#[cfg(test)]
fn run_case(cluster_bits: usize, refcount_order: u8, bs_bits: u8, vsize: u64, read_only: bool) -> usize {
    let rt = tokio::runtime::Runtime::new().unwrap();
    rt.block_on(async move {
        let img = make_temp_qcow2_img(vsize, cluster_bits, refcount_order);
        let path = std::path::PathBuf::from(img.path());
        let params = Qcow2DevParams::new(bs_bits, None, None, read_only, false);
        let dev = qcow2_setup_dev_tokio(&path, &params).await.unwrap();
        // the same geometry for the lifted code, derived by the real Qcow2Info::new from the real header
        let hbuf = std::fs::read(&path).unwrap();
        let header = Qcow2Header::from_buf(&hbuf[..4096]).unwrap();
        let info = Qcow2Info::new(&header, &params).unwrap();
        let env = KEnv::new(info);
        let bs = 1u64 << bs_bits;
        let cs = 1u64 << cluster_bits;
        let offsets = [
            0u64, 1, bs - 1, bs, bs + 1, cs - bs, cs, cs + bs, vsize - bs, vsize - 1, vsize, vsize + 1, vsize + bs,
            u64::MAX - bs + 1, u64::MAX - 1, u64::MAX,
        ];
        let lens = [0usize, 1, bs as usize - 1, bs as usize, bs as usize + 1, 2 * bs as usize, cs as usize, cs as usize + bs as usize];
        let mut n = 0;
        for &off in offsets.iter() {
            for &len in lens.iter() {
                // ---- write_at
                let data = crate::helpers::Qcow2IoBuf::<u8>::new(std::cmp::max(len, 1));
                let real = std::panic::AssertUnwindSafe(dev.write_at(&data[..len], off));
                let real = real.0.await;
                env.passed.set(false);
                let lifted = env.seg_w0(KBuf::new(len), off);
                assert_eq!(real.is_ok(), lifted.is_ok(), "write_at(off={off:#x}, len={len}) real {:?} lifted {:?}", real.is_ok(), lifted.is_ok());
                // ---- read_at
                let mut rbuf = crate::helpers::Qcow2IoBuf::<u8>::new(std::cmp::max(len, 1));
                let real = dev.read_at(&mut rbuf[..len], off).await;
                env.passed.set(false);
                let lifted = env.seg_r0(KBuf::new(len), off);
                match (&real, &lifted) {
                    (Err(_), Err(_)) => {}
                    (Ok(n_real), Ok(n_lift)) => {
                        if env.passed.get() {
                            // validation passed: the clamped length + extra is what the real call returns
                            let o = env.out.get();
                            assert_eq!(*n_real as u64, o[1] + o[3], "read_at(off={off:#x}, len={len})");
                        } else {
                            assert_eq!(n_real, n_lift, "read_at(off={off:#x}, len={len}) early return");
                        }
                    }
                    _ => panic!("read_at(off={off:#x}, len={len}) real ok={} lifted ok={}", real.is_ok(), lifted.is_ok()),
                }
                // ---- discard (len as u64, and a huge length)
                for dl in [len as u64, u64::MAX - off.min(7)] {
                    let real = dev.discard(off, dl).await;
                    let lifted = env.seg_d0(off, dl);
                    assert_eq!(real.is_ok(), lifted.is_ok(), "discard(off={off:#x}, len={dl:#x})");
                }
                n += 1;
            }
        }
        if !read_only {
            dev.flush_meta().await.unwrap();
        }
        n
    })
}

#[test]
fn selftest_prologues_64k_512() {
    assert!(run_case(16, 4, 9, 4 << 20, false) > 100);
}

#[test]
fn selftest_prologues_4k_4096() {
    assert!(run_case(12, 4, 12, (1 << 20) + 4096, false) > 100);
}

#[test]
fn selftest_prologues_read_only() {
    assert!(run_case(16, 4, 9, 4 << 20, true) > 100);
}
