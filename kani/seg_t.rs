// Harness over the cross-slice allocation loop lifted from src/dev/alloc.rs::try_allocate_from.
// @module-needs env header seg:T0 seg:AC
#![allow(dead_code, unused_imports)]
use super::*;
use crate::dev::verif_env::*;
use crate::meta::verif_header::{any_geo, info_of, mk_info, Geo};
use crate::meta::RefTableEntry;
use crate::verif_spec as spec;

fn fmt_stub2(_a: core::fmt::Arguments<'_>) -> String {
    String::new()
}

// @harness c08_fragment_retry
// @props C08 C03 C12
// @tier quick
// @cost 52
// @timeout 1500
// @needs T0
// @desc the whole body of try_allocate_from (the cross-slice loop with fragment retry), with try_alloc_from_rb_slice replaced by its CONTRACT (any result the alloc-step harnesses allow) and free_clusters recorded: whatever the slices grant, the run finally returned is ONE contiguous range made of adjacent grants, no longer than requested; every granted piece that is not part of the returned run was given back through free_clusters exactly once; nothing that is returned was freed; every slice it consults belongs to the one refcount block whose reftable entry it resolved (it never runs past the end of that block)
// @bounds at most 4 allocator steps per request; request of 1..=6 clusters; 64 KiB clusters, 16-bit refcounts, 512-byte slices (256 clusters per slice); any starting cluster < 2^40
// @funcs Qcow2Dev::try_allocate_from (whole body) HostCluster::{rb_host_end,rb_slice_host_end,rb_slice_index}
// @stub alloc::fmt::format -> String::new()
// @assume try_alloc_from_rb_slice behaves as its contract (discharged separately by c08_alloc_step_*)
#[kani::proof]
#[kani::unwind(10)]
#[kani::stub(std::fmt::format, fmt_stub2)]
fn c08_fragment_retry() {
    let cb = 16u32;
    let info = mk_info(cb, 4, 1u64 << 42, 9, Some((10, 2048)), Some((9, 1024)), false, false, false);
    let mut env = KEnv::new(info);
    env.rt_entry = RefTableEntry(0x30000);
    let cs = 1u64 << cb;
    let host: u64 = kani::any();
    kani::assume(host & (cs - 1) == 0 && host >> 40 == 0);
    let cnt: usize = kani::any();
    kani::assume(cnt >= 1 && cnt <= 6);
    let r = env.seg_t0(host, cnt);
    assert!(r.is_ok());
    // replay the recorded grants / frees: what is still held must be exactly the returned run
    let n = env.nrec.get();
    let mut held_start = 0u64;
    let mut held = 0usize; // clusters currently kept, always one contiguous run
    let mut pending_free = 0u8; // frees the code owes after a non-adjacent grant
    let mut owed: [(u64, usize); 2] = [(0, 0); 2];
    let mut k = 0;
    while k < MAX_REC {
        if k < n {
            let e = env.get_rec(k);
            if e.kind == K_TRYALLOC {
                // "cannot cross refblock boundaries": every slice it asks lies in the refcount
                // block whose reftable entry was resolved at entry
                assert!(HostCluster(e.buf_start as u64).rt_index(&env.info) == HostCluster(host).rt_index(&env.info));
            }
            if e.kind == K_TRYALLOC && e.len > 0 {
                assert!(pending_free == 0);
                if held == 0 {
                    held_start = e.off;
                    held = e.len;
                } else if e.off == held_start + (held as u64) * cs {
                    held += e.len; // adjacent: the run grows
                } else {
                    // fragment: both pieces have to be given back before anything else happens
                    owed = [(held_start, held), (e.off, e.len)];
                    pending_free = 2;
                    held = 0;
                }
            } else if e.kind == K_FREE {
                assert!(pending_free > 0);
                let which = if pending_free == 2 { 0 } else { 1 };
                assert!(e.off == owed[which].0 && e.len == owed[which].1);
                pending_free -= 1;
            }
        }
        k += 1;
    }
    assert!(pending_free == 0);
    match &r {
        Ok(Some((off, done))) => {
            assert!(*done >= 1 && *done <= cnt);
            assert!(held == *done && held_start == *off);
        }
        Ok(None) => assert!(held == 0),
        Err(_) => {}
    }
    kani::cover!(matches!(r, Ok(Some((_, d))) if d == cnt) && env.count(K_TRYALLOC) >= 2, "run assembled from two slices");
    kani::cover!(env.count(K_FREE) == 2, "fragment found and given back");
    kani::cover!(matches!(r, Ok(None)));
    kani::cover!(env.count(K_TRYALLOC) >= 1 && HostCluster(host).rb_slice_host_end(&env.info) == HostCluster(host).rb_host_end(&env.info), "starts in the last slice of its refcount block");
    core::mem::forget(r);
    core::mem::forget(env);
}

// @harness c08_allocate_clusters_loop
// @props C08 C12
// @tier quick
// @cost 60
// @timeout 900
// @needs AC
// @desc the whole body of allocate_clusters (try_allocate_from replaced by its contract; the first k refcount blocks are full): it starts at the free hint, advances to the START of the next refcount block each time a block is full (so it terminates and never skips a block), returns exactly what the allocator step granted, and moves the free hint UP only for single-cluster requests -- to just behind the granted cluster, never down -- and leaves it alone for multi-cluster requests
// @bounds 0..=2 full refcount blocks before the one that grants; request of 1..=4 clusters; any hint below 2^40; 64 KiB clusters, 16-bit refcounts
// @funcs Qcow2Dev::allocate_clusters (whole body) HostCluster::rb_host_end
// @stub alloc::fmt::format -> String::new()
// @assume try_allocate_from behaves as its contract (a run inside the refcount block it is asked about)
#[kani::proof]
#[kani::unwind(5)]
#[kani::stub(std::fmt::format, fmt_stub2)]
fn c08_allocate_clusters_loop() {
    let cb = 16u32;
    let info = mk_info(cb, 4, 1u64 << 42, 9, Some((10, 2048)), Some((9, 1024)), false, false, false);
    let env = KEnv::new(info);
    let cs = 1u64 << cb;
    let hint: u64 = kani::any();
    kani::assume(hint & (cs - 1) == 0 && hint >> 40 == 0);
    env.free_cluster_offset.store(hint, Ordering::Relaxed);
    let full: usize = kani::any();
    kani::assume(full <= 2);
    env.passes_left.set(full);
    let count: usize = kani::any();
    kani::assume(count >= 1 && count <= 4);
    let r = env.seg_ac(count);
    let span = cs << spec::rb_bits(cb, 4); // host bytes one refcount block describes
    let n = env.nrec.get();
    assert!(n == full + 1);
    // block by block, each from the start of the next block
    let mut k = 0;
    while k < 3 {
        if k < n {
            let e = env.get_rec(k);
            assert!(e.kind == K_TRYFROM && e.len == count);
            if k == 0 {
                assert!(e.off == hint);
            } else {
                assert!(e.off == ((hint / span) + k as u64) * span);
            }
        }
        k += 1;
    }
    match &r {
        Ok(Some((off, got))) => {
            assert!(*got >= 1 && *got <= count);
            let new_hint = env.free_cluster_offset.load(Ordering::Relaxed);
            assert!(new_hint >= hint); // an allocation never moves the hint down
            if count == 1 {
                assert!(new_hint == core::cmp::max(hint, *off + cs));
            } else {
                assert!(new_hint == hint);
            }
        }
        _ => assert!(false),
    }
    kani::cover!(full == 2 && count == 1);
    kani::cover!(full == 0 && count == 4);
    core::mem::forget(r);
    core::mem::forget(env);
}
