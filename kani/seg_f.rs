// Harnesses over call_fallocate and the creation of a new refcount block; child of `crate::dev`.
// @module-needs env header seg:F0 seg:E0
#![allow(dead_code, unused_imports)]
use super::*;
use crate::dev::verif_env::*;
use crate::meta::verif_header::{any_geo, info_of, mk_info, Geo};
use crate::meta::{RefBlock, RefTable, RefTableEntry, Table, TableEntry};
use crate::verif_spec as spec;

fn fmt_stub2(_a: core::fmt::Arguments<'_>) -> String {
    String::new()
}

// @harness c11_punch_fallback
// @props C11 C16 C17
// @tier quick
// @cost 5
// @timeout 900
// @needs F0
// @desc the whole body of call_fallocate (backend shimmed): when the backend's hole punch succeeds nothing else is sent; when it fails, exactly one write follows, at the same offset, of exactly `len` bytes that are ALL ZERO, and its result is what call_fallocate returns
// @bounds len 512 (concrete, one block); offset any u64; punch outcome and write outcome symbolic; the zero content is checked at a universally quantified byte index
// @funcs Qcow2Dev::call_fallocate zeroed_io_buf Qcow2IoBuf::{new,zero_buf}
// @stub alloc::fmt::format -> String::new()
#[kani::proof]
#[kani::unwind(4)]
#[kani::stub(std::fmt::format, fmt_stub2)]
fn c11_punch_fallback() {
    let env = KEnv::new(mk_info(16, 4, 1u64 << 40, 9, Some((9, 1024)), Some((9, 1024)), false, false, false));
    let off: u64 = kani::any();
    let fail_punch: bool = kani::any();
    let fail_write: bool = kani::any();
    env.fail_falloc.set(fail_punch);
    env.fail_write.set(fail_write);
    env.write_probe.set(0xff);
    let r = env.seg_f0(off, 512, Qcow2OpsFlags::FALLOCATE_ZERO_RANGE);
    let p = env.get_rec(0);
    assert!(p.kind == K_FALLOC && p.off == off && p.len == 512);
    if !fail_punch {
        assert!(r.is_ok() && env.nrec.get() == 1);
    } else {
        assert!(env.nrec.get() == 2);
        let w = env.get_rec(1);
        assert!(w.kind == K_BACKEND_WRITE && w.off == off && w.len == 512);
        assert!(env.write_probe.get() == 0); // every byte of the fallback buffer is zero
        assert!(r.is_ok() == !fail_write);
    }
    kani::cover!(fail_punch && !fail_write);
    kani::cover!(fail_punch && fail_write);
    kani::cover!(!fail_punch);
    core::mem::forget(r);
    core::mem::forget(env);
}

// @harness c12_new_refblock
// @props C12 C03 C18 C08
// @tier quick
// @cost 66
// @timeout 1200
// @needs E0
// @desc the creation of a new refcount block (tail of ensure_refblock_offset from the placement computation to the end, lifted verbatim; cache insertion shimmed) for the first cluster of a host range that has no refcount block yet: the block is placed at the first cluster of the range it describes (cluster aligned, reserved bits clear), the refcount-table entry points to it and its table block is queued dirty, need_flush is set, the cluster is registered as new (zeroed before its first write), and the slice handed to the cache has the refcount cache's slice size and counts exactly one reference -- the block's own cluster, entry 0 -- and nothing else; key and byte offset of that slice are those of the block's first slice
// @bounds refcount table of 64 entries (arbitrary old content in the addressed entry's neighbours not modelled: table zero-initialised); rt_index 0..64; cluster_bits 10..=16, refcount_order 0..=6 symbolic; refcount slices of 512 bytes, L2 slices of 1 KiB (different on purpose)
// @funcs Qcow2Dev::ensure_refblock_offset (tail) RefTable::set_refblock_offset RefBlock::{new,increment} HostCluster::{rb_slice_key,rb_slice_off_in_table}
// @stub alloc::fmt::format -> String::new()
// @assume the cluster that triggers the creation is the first cluster of the uncovered refcount-block range (the allocator only advances to refcount-block boundaries)
#[kani::proof]
#[kani::unwind(4)]
#[kani::stub(std::fmt::format, fmt_stub2)]
fn c12_new_refblock() {
    let cb: u32 = kani::any();
    let order: u32 = kani::any();
    kani::assume(cb >= 10 && cb <= 16 && order <= 6);
    // different slice sizes for the two caches (1 KiB L2 slices, 512-byte refcount slices)
    let info = mk_info(cb, order, 1u64 << 40, 9, Some((10, 2048)), Some((9, 1024)), false, false, false);
    let env = KEnv::new(info);
    let mut rt = RefTable::new(Some(1u64 << cb), 512, 9);
    let rt_index: usize = kani::any();
    kani::assume(rt_index < 64);
    let span_bits = spec::rb_bits(cb, order) + cb;
    let host = (rt_index as u64) << span_bits;
    let cls = HostCluster(host);
    assert!(cls.rt_index(&env.info) == rt_index);
    let r = env.seg_e0(&mut rt, &cls, rt_index);
    assert!(r.is_ok());
    let e = rt.get(rt_index).into_plain();
    assert!(e == host && spec::rt_valid(e, cb));
    if let Ok(x) = &r {
        assert!(x.into_plain() == e);
    }
    assert!(env.need_flush_meta());
    assert!(rt.pop_dirty_blk_idx(None) == Some(((rt_index as u32) * 8) >> 9));
    assert!(env.nrec.get() == 2);
    let n = env.get_rec(0);
    assert!(n.kind == K_NEWCLUSTER && n.off == host >> cb);
    let a = env.get_rec(1);
    assert!(a.kind == K_ADD_SLICE && a.entry == e);
    assert!(a.off as usize == HostCluster(host).rb_slice_key(&env.info) && a.len == 0);
    let slot = env.added_rb.borrow();
    let rb = slot.as_ref().unwrap();
    // a refcount slice of the refcount cache's slice size
    assert!(rb.byte_size() == 1usize << env.info.rb_slice_bits);
    assert!(rb.entries() == env.info.rb_slice_entries() as usize);
    assert!(rb.get(0).into_plain() == 1);
    let j: usize = kani::any();
    kani::assume(j >= 1 && j < rb.entries());
    assert!(rb.get(j).into_plain() == 0);
    kani::cover!(rt_index == 63 && order == 0);
    kani::cover!(rt_index == 0);
    drop(slot);
    core::mem::forget(r);
    core::mem::forget(env);
}
