// Harness module injected as a child of `crate::meta::l1`.
// @module-needs header
#![allow(dead_code, unused_imports)]
use super::*;
use crate::meta::verif_header::{any_geo, fmt_stub, info_of};
use crate::verif_spec as spec;

// @harness c15_l1_entry
// @props C15 C14 C03
// @tier quick
// @cost 24
// @timeout 300
// @desc L1Entry decode/validate and L1Table::map_l2_offset: l2_offset = bits 9..55, COPIED = bit 63; try_from_plain accepts every spec-valid entry and everything it accepts is cluster aligned with bits 1-8 and 56-62 clear; map_l2_offset(i, off) stores exactly COPIED|off big-endian at byte 8*i, touches no other entry and queues the containing block as dirty
// @bounds raw: all u64; geometry symbolic; 8-entry table with arbitrary content; off: any aligned offset < 2^56
// @funcs L1Entry::try_from_plain L1Entry::l2_offset L1Table::map_l2_offset L1Table::new Table::get Table::set Table::set_dirty
// @stub alloc::fmt::format -> String::new()
#[kani::proof]
#[kani::unwind(9)]
#[kani::stub(alloc::fmt::format, fmt_stub)]
fn c15_l1_entry() {
    let g = any_geo();
    let info = info_of(&g, kani::any(), false, false, false);
    let raw: u64 = kani::any();
    let e = L1Entry(raw);
    assert!(e.l2_offset() == raw & spec::L1_OFFSET_MASK);
    assert!(e.is_copied() == (raw & spec::COPIED != 0));
    assert!(e.is_zero() == (raw & spec::L1_OFFSET_MASK == 0));
    let r = <L1Entry as TableEntry>::try_from_plain(raw, &info);
    match &r {
        Ok(x) => {
            assert!(x.into_plain() == raw);
            assert!(raw & 0x7f00_0000_0000_01fe == 0);
            assert!((raw & spec::L1_OFFSET_MASK) & (spec::cluster_size(g.cb) - 1) == 0);
        }
        Err(_) => assert!(!spec::l1_valid(raw, g.cb)),
    }
    kani::cover!(r.is_ok() && raw & spec::COPIED != 0);
    kani::cover!(r.is_err());
    core::mem::forget(r);

    let mut t = L1Table::new(None, 64, 8, g.bs);
    let before: [u64; 8] = kani::any();
    let mut i = 0;
    while i < 8 {
        t.set(i, L1Entry(before[i]));
        i += 1;
    }
    let idx: usize = kani::any();
    kani::assume(idx < 8);
    let off: u64 = kani::any();
    kani::assume(off != 0 && off >> 56 == 0 && off & (spec::cluster_size(g.cb) - 1) == 0);
    t.map_l2_offset(idx, off);
    let mut k = 0;
    while k < 8 {
        let v = t.get(k).into_plain();
        if k == idx {
            assert!(v == spec::COPIED | off);
            assert!(spec::l1_valid(v, g.cb));
        } else {
            assert!(v == before[k]);
        }
        k += 1;
    }
    let want = (spec::COPIED | off).to_be_bytes();
    let mut b = 0;
    while b < 8 {
        assert!(unsafe { *t.as_ptr().add(idx * 8 + b) } == want[b]);
        b += 1;
    }
    assert!(t.pop_dirty_blk_idx(None) == Some(((idx as u32) * 8) >> g.bs));
    assert!(t.pop_dirty_blk_idx(None).is_none());
    core::mem::forget(info);
}

// @harness c12_l1_header_entries
// @props C12
// @tier quick
// @cost 1
// @timeout 300
// @desc L1Table bounds bookkeeping: in_bounds(i) <=> i < header_entries; update_header_entries(n) for n <= entries() does not panic and makes exactly the first n entries in-bounds
// @bounds 8-entry table; every n, i
// @funcs L1Table::in_bounds L1Table::update_header_entries L1Table::new
// @stub alloc::fmt::format -> String::new()
#[kani::proof]
#[kani::stub(alloc::fmt::format, fmt_stub)]
fn c12_l1_header_entries() {
    let he: u32 = kani::any();
    kani::assume(he <= 8);
    let mut t = L1Table::new(None, 64, he, 9);
    let i: usize = kani::any();
    assert!(t.in_bounds(i) == (i < he as usize));
    let n: u32 = kani::any();
    kani::assume(n as usize <= t.entries());
    t.update_header_entries(n);
    assert!(t.in_bounds(i) == (i < n as usize));
    kani::cover!(n == 8 && he == 0);
}
