// Harnesses over flush_table / load_top_table (raw-pointer request builders), lifted from
// src/dev/cache.rs; child of `crate::dev`.
// @module-needs env header seg:FT
#![allow(dead_code, unused_imports)]
use super::*;
use crate::dev::verif_env::*;
use crate::meta::verif_header::mk_info;
use crate::meta::{L1Entry, L1Table, RefBlock, Table, TableEntry};

fn fmt_stub_ft(_a: core::fmt::Arguments<'_>) -> String {
    String::new()
}

fn l1e(v: u64) -> L1Entry {
    unsafe { core::mem::transmute::<u64, L1Entry>(v) }
}

// @harness c16_flush_table_block
// @props C16 C02
// @tier quick
// @cost 10
// @timeout 900
// @needs FT
// @desc whole flush_table (lifted) with the arguments flush_top_table passes (start = block index << block bits, size = one block) on a two-block L1 table: exactly one backend write, at table offset + start, one block long, whose buffer is a valid slice INSIDE the table's buffer starting `start` bytes in (every byte of the request is the table byte at that position, checked at a symbolic position; the model checker validates the raw slice), so an aligned table yields an aligned request
// @bounds L1 table of 1024 bytes (128 entries), 512-byte blocks, both blocks; symbolic entry under the probed byte; symbolic table host offset (block aligned)
// @assume call_write records offset/length and reads one byte of the buffer at a symbolic index
// @funcs Qcow2Dev::flush_table Table::as_ptr Table::get_offset
// @stub alloc::fmt::format -> String::new()
#[kani::proof]
#[kani::unwind(10)]
#[kani::stub(std::fmt::format, fmt_stub_ft)]
fn c16_flush_table_block() {
    let info = mk_info(12, 4, 1u64 << 30, 9, Some((10, 2048)), Some((9, 1024)), false, false, false);
    let env = KEnv::new(info);
    let toff: u64 = kani::any();
    kani::assume(toff % 512 == 0 && toff < (1u64 << 56));
    let mut t = L1Table::new(Some(toff), 1024, 128, 9);
    let idx: u32 = kani::any();
    kani::assume(idx < 2);
    let e: usize = kani::any();
    kani::assume(e < 128);
    let v: u64 = kani::any();
    t.set(e, l1e(v));
    let start = idx << 9;

    let r = env.seg_ft(&t, start, 512);

    assert!(r.is_ok());
    assert!(env.nrec.get() == 1 && env.count(K_BACKEND_WRITE) == 1);
    let w = env.get_rec(0);
    assert!(w.off == toff + start as u64 && w.len == 512);
    assert!(w.off % 512 == 0 && w.len % 512 == 0);
    // the byte the backend saw at position i is byte (start + i) of the table
    let i = env.write_probe_idx.get();
    let pos = start as usize + i;
    let want = t.get(pos / 8).into_plain().to_be_bytes()[pos % 8];
    assert!(env.write_probe.get() == want);
    kani::cover!(idx == 1 && pos / 8 == e && want != 0);
    core::mem::forget(r);
    core::mem::forget(t);
    core::mem::forget(env);
}

// @harness c16_flush_table_slice
// @props C16 C02
// @tier quick
// @cost 10
// @timeout 900
// @needs FT
// @desc whole flush_table (lifted) with the arguments the slice write-back passes (start 0, size = byte_size) on a refcount slice: one backend write at the slice's host offset, exactly the slice long, whose buffer is the slice's own buffer (checked at a symbolic position)
// @bounds 512-byte refcount slice, 16-bit refcounts, symbolic counter under the probed byte, symbolic host offset
// @assume call_write records offset/length and reads one byte of the buffer at a symbolic index
// @funcs Qcow2Dev::flush_table Table::as_ptr Table::byte_size
// @stub alloc::fmt::format -> String::new()
#[kani::proof]
#[kani::unwind(10)]
#[kani::stub(std::fmt::format, fmt_stub_ft)]
fn c16_flush_table_slice() {
    let info = mk_info(12, 4, 1u64 << 30, 9, Some((10, 2048)), Some((9, 1024)), false, false, false);
    let env = KEnv::new(info);
    let toff: u64 = kani::any();
    kani::assume(toff % 512 == 0 && toff < (1u64 << 56));
    let mut t = RefBlock::new(4, 512, Some(toff));
    let e: usize = kani::any();
    kani::assume(e < 256);
    let v: u16 = kani::any();
    t.set(e, crate::meta::RefBlockEntry::try_from_plain(v as u64, &env.info).unwrap());
    let n = t.byte_size();

    let r = env.seg_ft(&t, 0, n);

    assert!(r.is_ok() && n == 512);
    assert!(env.nrec.get() == 1 && env.count(K_BACKEND_WRITE) == 1);
    let w = env.get_rec(0);
    assert!(w.off == toff && w.len == 512);
    let i = env.write_probe_idx.get();
    let want = (t.get(i / 2).into_plain() as u16).to_be_bytes()[i % 2];
    assert!(env.write_probe.get() == want);
    kani::cover!(i / 2 == e && want != 0);
    core::mem::forget(r);
    core::mem::forget(t);
    core::mem::forget(env);
}

// @harness c16_load_top_table
// @props C16 C02 C14
// @tier quick
// @cost 10
// @timeout 900
// @needs FT
// @desc whole load_top_table (lifted): a table that is not loaded yet is read with exactly one backend read at the given offset, exactly byte_size() long, into the table's own buffer (a store at a symbolic position of the request lands in the table entry at that position), and the table remembers the offset; a table that is already loaded issues no request
// @bounds L1 table of 1024 bytes, 512-byte blocks; symbolic offset; read succeeds or fails; table loaded or not
// @assume call_read stores one byte at a symbolic index of the buffer it is given
// @funcs Qcow2Dev::load_top_table Table::as_mut_ptr Table::byte_size Table::set_offset Table::is_update
// @stub alloc::fmt::format -> String::new()
#[kani::proof]
#[kani::unwind(10)]
#[kani::stub(std::fmt::format, fmt_stub_ft)]
fn c16_load_top_table() {
    let info = mk_info(12, 4, 1u64 << 30, 9, Some((10, 2048)), Some((9, 1024)), false, false, false);
    let env = KEnv::new(info);
    let off: u64 = kani::any();
    let loaded: bool = kani::any();
    let t0 = L1Table::new(if loaded { Some(off) } else { None }, 1024, 128, 9);
    let top = KLock::new(t0);
    env.fail_read.set(kani::any());
    let b: u8 = kani::any();
    env.write_probe.set(b);

    let r = env.seg_lt(&top, off);

    let t = top.kread();
    if loaded {
        assert!(env.nrec.get() == 0);
        match &r {
            Ok(n) => assert!(*n == 0),
            Err(_) => assert!(false),
        }
    } else {
        assert!(env.nrec.get() == 1 && env.count(K_BACKEND_READ) == 1);
        let q = env.get_rec(0);
        assert!(q.off == off && q.len == 1024 && q.len == t.byte_size());
        assert!(t.get_offset() == Some(off));
        if env.fail_read.get() {
            assert!(r.is_err());
        } else {
            match &r {
                Ok(n) => assert!(*n == 1024),
                Err(_) => assert!(false),
            }
            let i = env.write_probe_idx.get();
            assert!(t.get(i / 8).into_plain().to_be_bytes()[i % 8] == b);
        }
    }
    kani::cover!(!loaded && r.is_ok() && b != 0);
    kani::cover!(loaded);
    core::mem::forget(r);
    drop(t);
    core::mem::forget(top);
    core::mem::forget(env);
}
