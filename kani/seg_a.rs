// Harnesses over the allocator steps lifted from src/dev/alloc.rs; child of `crate::dev`.
// @module-needs env header seg:A0 seg:A1
#![allow(dead_code, unused_imports)]
use super::*;
use crate::dev::verif_env::*;
use crate::meta::verif_header::{any_geo, info_of, mk_info, Geo};
use crate::meta::{RefBlock, RefTableEntry, Table, TableEntry};
use crate::verif_spec as spec;

fn fmt_stub2(_a: core::fmt::Arguments<'_>) -> String {
    String::new()
}

const SLICE_BYTES: usize = 512; // rb slice = one 512-byte block (rb_slice_bits = 9)
const WIN: usize = 4; // entries with arbitrary refcounts: the last 4 of the slice

const SNAP: usize = 128; // bytes snapshotted: the last 128 bytes of the slice

/// A refcount-block slice of the real size (512 bytes).  The last `WIN` entries hold arbitrary
/// refcounts, the entry before them is in use (bounds the backward scan), everything else is free.
fn any_slice(order: u8) -> (RefBlock, [u8; SNAP]) {
    let mut rb = RefBlock::new(order, SLICE_BYTES, None);
    let entries = (SLICE_BYTES * 8) >> order;
    let w = 1usize << order; // bits per entry
    let nb = core::cmp::max(WIN * w / 8, 1); // bytes of the window (concrete per instance)
    let init: [u8; 64] = kani::any();
    unsafe { core::ptr::copy_nonoverlapping(init.as_ptr(), rb.as_mut_ptr().add(SLICE_BYTES - nb), nb) };
    // the entry just before the arbitrary bytes is allocated
    rb.increment(entries - nb * 8 / w - 1).unwrap();
    let snap = snap_of(&rb);
    (rb, snap)
}

fn snap_of(rb: &RefBlock) -> [u8; SNAP] {
    let mut snap = [0u8; SNAP];
    unsafe { core::ptr::copy_nonoverlapping(rb.as_ptr().add(SLICE_BYTES - SNAP), snap.as_mut_ptr(), SNAP) };
    snap
}

/// refcount of slice entry `j` (which must lie in the snapshotted tail) per the spec layout
fn rc(snap: &[u8; SNAP], order: u8, j: usize) -> u64 {
    let entries = (SLICE_BYTES * 8) >> order;
    let in_snap = (SNAP * 8) >> order;
    spec::rc_get(snap, order as u32, j - (entries - in_snap))
}

macro_rules! alloc_step {
    ($name:ident, $order:expr, $cblo:expr, $cbhi:expr, $unw:expr) => {
        #[kani::proof]
        #[kani::unwind($unw)]
        #[kani::stub(std::fmt::format, fmt_stub2)]
        fn $name() {
            let order: u8 = $order;
            let cb: u32 = kani::any();
            kani::assume(cb >= $cblo && cb <= $cbhi);
            // refcount slices 512 B; L2 slices deliberately of another size where the cluster size allows
            let l2c = if $cblo >= 10 { Some((10u8, 2048usize)) } else { Some((9u8, 1024usize)) };
            let info = mk_info(cb, order as u32, 1u64 << 40, 9, l2c, Some((9, 1024)), false, false, false);
            let mut env = KEnv::new(info);
            let nf0: bool = kani::any();
            env.mark_need_flush(nf0);
            let entries = (SLICE_BYTES * 8) >> order;
            assert!(env.info.rb_slice_entries() as usize == entries);
            let (rb, before) = any_slice(order);
            env.rb_slice = Some(KHandle::new(rb));
            let cs = 1u64 << cb;
            let host: u64 = kani::any();
            kani::assume(host >> 56 == 0);
            let cls = HostCluster(host);
            let start = cls.rb_slice_index(&env.info);
            kani::assume(start >= entries - WIN);
            let count: usize = kani::any();
            kani::assume(count >= 1 && count <= 3);
            let fixed: bool = kani::any();
            let rt_e = RefTableEntry(kani::any());
            let r = env.seg_a1(&rt_e, &cls, count, fixed);
            let h = env.rb_slice.as_ref().unwrap();
            let after = snap_of(&h.value().kwrite());
            let slice_start = host & !((cs << (12 - order as u32)) - 1);
            let j: usize = kani::any();
            kani::assume(j >= entries - 9 && j < entries);
            match &r {
                Ok(Some((off, n))) => {
                    let (off, n) = (*off, *n);
                    assert!(n >= 1 && n <= count);
                    assert!(off & (cs - 1) == 0 && off >= slice_start);
                    let idx = ((off - slice_start) >> cb) as usize;
                    // inside this slice, never before the requested position
                    assert!(idx >= start && idx + n <= entries);
                    if fixed {
                        assert!(n == count);
                    }
                    // only refcount-0 clusters are handed out, and each goes 0 -> 1; nothing else changes
                    if j >= idx && j < idx + n {
                        assert!(rc(&before, order, j) == 0);
                        assert!(rc(&after, order, j) == 1);
                    } else {
                        assert!(rc(&after, order, j) == rc(&before, order, j));
                    }
                    assert!(h.is_dirty() && env.need_flush_meta());
                    kani::cover!(n < count, "tail fallback: fewer clusters than requested");
                    kani::cover!(idx > start, "skipped allocated clusters");
                    kani::cover!(n == 3);
                }
                Ok(None) => {
                    assert!(rc(&after, order, j) == rc(&before, order, j));
                    assert!(!h.is_dirty() && env.need_flush_meta() == nf0);
                    kani::cover!(start + count > entries, "request crossing the slice end is refused");
                    kani::cover!(start + count <= entries);
                }
                Err(_) => assert!(false),
            }
            // a step never clears the device-wide flag
            assert!(!nf0 || env.need_flush_meta());
            core::mem::forget(r);
            core::mem::forget(env);
        }
    };
}

// @harness c08_alloc_step_o4
// @props C08 C03 C18
// @tier quick
// @cost 232
// @timeout 1500
// @needs A1
// @desc one allocator step (whole body of try_alloc_from_rb_slice, lock and cache lookup shimmed) from an ARBITRARY refcount slice state at 16-bit refcounts: the run returned is contiguous, inside the slice, at or after the requested position, 1 <= n <= count (n == count when fixed_start), every cluster in it had refcount 0 before and 1 after, no other counter changes, the slice is marked dirty and need_flush set; a request crossing the slice end is refused without any change; None leaves everything untouched
// @bounds slice: real 512-byte slice, arbitrary refcounts in its last 4 entries, entry before them in use, rest free; requested position inside those 4 entries; count 1..=3; fixed_start symbolic; cluster_bits 16 (concrete; the index arithmetic is decided for all cluster sizes by c15_host_cluster); refcount_order 4 (concrete per instance)
// @funcs Qcow2Dev::try_alloc_from_rb_slice (whole body) RefBlock::get_free_range RefBlock::get_tail_free_range RefBlock::alloc_range HostCluster::rb_slice_index HostCluster::cluster_off_from_slice
// @stub alloc::fmt::format -> String::new()
alloc_step!(c08_alloc_step_o4, 4, 16, 16, 7);

// @harness c08_alloc_step_o0
// @props C08 C03 C18
// @tier thorough
// @cost 200
// @timeout 1500
// @needs A1
// @desc same allocator step at 1-bit refcounts (sub-byte packing)
// @bounds as c08_alloc_step_o4 with refcount_order 0
// @funcs Qcow2Dev::try_alloc_from_rb_slice (whole body) RefBlock::get_free_range RefBlock::get_tail_free_range RefBlock::alloc_range
// @stub alloc::fmt::format -> String::new()
alloc_step!(c08_alloc_step_o0, 0, 16, 16, 11);

// @harness c08_alloc_step_o6
// @props C08 C03 C18
// @tier thorough
// @cost 200
// @timeout 1500
// @needs A1
// @desc same allocator step at 64-bit refcounts
// @bounds as c08_alloc_step_o4 with refcount_order 6
// @funcs Qcow2Dev::try_alloc_from_rb_slice (whole body) RefBlock::get_free_range RefBlock::get_tail_free_range RefBlock::alloc_range
// @stub alloc::fmt::format -> String::new()
alloc_step!(c08_alloc_step_o6, 6, 16, 16, 7);

// @harness c08_alloc_step_o2
// @props C08 C03 C18
// @tier thorough
// @cost 200
// @timeout 1500
// @needs A1
// @desc same allocator step at 4-bit refcounts
// @bounds as c08_alloc_step_o4 with refcount_order 2
// @funcs Qcow2Dev::try_alloc_from_rb_slice (whole body)
// @stub alloc::fmt::format -> String::new()
alloc_step!(c08_alloc_step_o2, 2, 16, 16, 7);

// @harness c08_alloc_step_o3
// @props C08 C03 C18
// @tier thorough
// @cost 200
// @timeout 1500
// @needs A1
// @desc same allocator step at 8-bit refcounts
// @bounds as c08_alloc_step_o4 with refcount_order 3
// @funcs Qcow2Dev::try_alloc_from_rb_slice (whole body)
// @stub alloc::fmt::format -> String::new()
alloc_step!(c08_alloc_step_o3, 3, 16, 16, 7);

macro_rules! free_step {
    ($name:ident, $order:expr, $cblo:expr, $cbhi:expr, $unw:expr) => {
        #[kani::proof]
        #[kani::unwind($unw)]
        #[kani::stub(std::fmt::format, fmt_stub2)]
        fn $name() {
            let order: u8 = $order;
            let cb: u32 = kani::any();
            kani::assume(cb >= $cblo && cb <= $cbhi);
            // refcount slices 512 B; L2 slices deliberately of another size where the cluster size allows
            let l2c = if $cblo >= 10 { Some((10u8, 2048usize)) } else { Some((9u8, 1024usize)) };
            let info = mk_info(cb, order as u32, 1u64 << 40, 9, l2c, Some((9, 1024)), false, false, false);
            let mut env = KEnv::new(info);
            let nf0: bool = kani::any();
            env.mark_need_flush(nf0);
            let entries = (SLICE_BYTES * 8) >> order;
            let (rb, before) = any_slice(order);
            env.rb_slice = Some(KHandle::new(rb));
            env.rt_entry = RefTableEntry(kani::any());
            let hint: u64 = kani::any();
            env.free_cluster_offset.store(hint, Ordering::Relaxed);
            let cs = 1u64 << cb;
            let host: u64 = kani::any();
            kani::assume(host >> 56 == 0 && host & (cs - 1) == 0);
            let start = HostCluster(host).rb_slice_index(&env.info);
            let count: usize = kani::any();
            kani::assume(count >= 1 && count <= 2);
            // the freed run lies in the window of this slice, and the caller holds a reference
            // to every cluster of it (refcount >= 1)
            kani::assume(start >= entries - WIN && start + count <= entries);
            let mut k = 0;
            while k < 2 {
                if k < count {
                    kani::assume(rc(&before, order, start + k) >= 1);
                }
                k += 1;
            }
            let r = env.seg_a0(host, count);
            assert!(r.is_ok());
            let h = env.rb_slice.as_ref().unwrap();
            let after = snap_of(&h.value().kwrite());
            let j: usize = kani::any();
            kani::assume(j >= entries - 9 && j < entries);
            let b = rc(&before, order, j);
            let a = rc(&after, order, j);
            if j >= start && j < start + count {
                assert!(a == b - 1); // exactly one reference dropped, once
            } else {
                assert!(a == b);
            }
            assert!(h.is_dirty() && env.need_flush_meta());
            // the hint never moves up, and moves down to the first cluster that became free
            let new_hint = env.free_cluster_offset.load(Ordering::Relaxed);
            assert!(new_hint <= hint);
            let mut first_free: Option<u64> = None;
            let mut k = 0;
            while k < 2 {
                if k < count && first_free.is_none() && rc(&after, order, start + k) == 0 {
                    first_free = Some(host + (k as u64) * cs);
                }
                k += 1;
            }
            match first_free {
                Some(f) => assert!(new_hint == core::cmp::min(hint, f)),
                None => assert!(new_hint == hint),
            }
            kani::cover!(first_free.is_some() && new_hint < hint);
            kani::cover!(first_free.is_none(), "still referenced elsewhere");
            kani::cover!(count == 2);
            // a step never clears the device-wide flag
            assert!(!nf0 || env.need_flush_meta());
            core::mem::forget(r);
            core::mem::forget(env);
        }
    };
}

// @harness c08_free_step_o4
// @props C08 C03 C18
// @tier quick
// @cost 178
// @timeout 1500
// @needs A0
// @desc one free step (whole body of free_clusters, lock and cache lookup shimmed) from an arbitrary refcount slice state at 16-bit refcounts: every cluster of the run loses exactly one reference, no other counter changes, the slice is marked dirty and need_flush set, the allocation hint never moves up and becomes min(old hint, first cluster whose count reached 0)
// @bounds slice: real 512-byte slice, arbitrary refcounts in its last 4 entries; run of 1..=2 clusters inside them, each with refcount >= 1 (the caller's references); cluster_bits 16 (concrete); any old hint
// @funcs Qcow2Dev::free_clusters (whole body) RefBlock::decrement HostCluster::{rt_index,rb_slice_index,rb_slice_host_end}
// @stub alloc::fmt::format -> String::new()
// @assume every freed cluster has refcount >= 1 (a free of an unreferenced cluster panics in decrement().unwrap())
free_step!(c08_free_step_o4, 4, 16, 16, 4);

// @harness c08_free_step_o1
// @props C08 C03 C18
// @tier thorough
// @cost 200
// @timeout 1500
// @needs A0
// @desc same free step at 2-bit refcounts (sub-byte packing)
// @bounds as c08_free_step_o4 with refcount_order 1
// @funcs Qcow2Dev::free_clusters (whole body) RefBlock::decrement
// @stub alloc::fmt::format -> String::new()
free_step!(c08_free_step_o1, 1, 16, 16, 4);

// @harness c08_free_step_o6
// @props C08 C03 C18
// @tier thorough
// @cost 200
// @timeout 1500
// @needs A0
// @desc same free step at 64-bit refcounts
// @bounds as c08_free_step_o4 with refcount_order 6
// @funcs Qcow2Dev::free_clusters (whole body) RefBlock::decrement
// @stub alloc::fmt::format -> String::new()
free_step!(c08_free_step_o6, 6, 16, 16, 4);

// @harness c08_alloc_step_o4_allcb
// @props C08 C03 C18
// @tier thorough
// @cost 900
// @timeout 3000
// @needs A1
// @desc the 16-bit allocator step again with the cluster size symbolic over the whole supported range
// @bounds as c08_alloc_step_o4, cluster_bits 9..=21 symbolic
// @funcs Qcow2Dev::try_alloc_from_rb_slice (whole body)
// @stub alloc::fmt::format -> String::new()
alloc_step!(c08_alloc_step_o4_allcb, 4, 9, 21, 7);

// @harness c08_free_step_o4_allcb
// @props C08 C03 C18
// @tier thorough
// @cost 900
// @timeout 3000
// @needs A0
// @desc the 16-bit free step again with the cluster size symbolic over the whole supported range
// @bounds as c08_free_step_o4, cluster_bits 9..=21 symbolic
// @funcs Qcow2Dev::free_clusters (whole body)
// @stub alloc::fmt::format -> String::new()
free_step!(c08_free_step_o4_allcb, 4, 9, 21, 4);

macro_rules! free_across {
    ($name:ident, $d:expr, $count:expr, $fail:expr) => {
        #[kani::proof]
        #[kani::unwind(3)]
        #[kani::stub(std::fmt::format, fmt_stub2)]
        fn $name() {
            let order: u8 = 4;
            let cb: u32 = 16;
            let info = mk_info(cb, order as u32, 1u64 << 40, 9, Some((10, 2048)), Some((9, 1024)), false, false, false);
            let mut env = KEnv::new(info);
            let entries = (SLICE_BYTES * 8) >> order; // 256
            let (rb_a, before_a) = any_slice(order);
            // second slice: arbitrary counters in its first 4 entries
            let mut rb_b = RefBlock::new(order, SLICE_BYTES, None);
            let init_b: [u8; 8] = kani::any();
            unsafe { core::ptr::copy_nonoverlapping(init_b.as_ptr(), rb_b.as_mut_ptr(), 8) };
            let cnt_b = |blk: &RefBlock, j: usize| -> u64 { blk.get(j).into_plain() };
            let b_before = [cnt_b(&rb_b, 0), cnt_b(&rb_b, 1), cnt_b(&rb_b, 2), cnt_b(&rb_b, 3)];
            env.rb_slice = Some(KHandle::new(rb_a));
            env.rb_slice2 = Some(KHandle::new(rb_b));
            env.rt_entry = RefTableEntry(kani::any());
            let hint: u64 = kani::any();
            env.free_cluster_offset.store(hint, Ordering::Relaxed);
            let fail: bool = $fail;
            env.fail_get_rb.set(fail);
            let cs = 1u64 << cb;
            let span = (entries as u64) * cs; // host bytes one slice describes
            let a_start = 5 * span;
            env.rb_key2 = HostCluster(a_start + span).rb_slice_key(&env.info);
            assert!(env.rb_key2 == HostCluster(a_start).rb_slice_key(&env.info) + 1);
            let d: usize = $d;
            let count: usize = $count;
            let start = entries - d;
            let host = a_start + (start as u64) * cs;
            // the caller holds a reference to every cluster of the run (written out: the harness
            // itself must not need a larger unwind bound than the code under test)
            let held = |i: usize| -> bool {
                if i >= count {
                    true
                } else if i < d {
                    rc(&before_a, order, start + i) >= 1
                } else {
                    b_before[i - d] >= 1
                }
            };
            kani::assume(held(0) && held(1) && held(2));

            let r = env.seg_a0(host, count);

            let ha = env.rb_slice.as_ref().unwrap();
            let hb = env.rb_slice2.as_ref().unwrap();
            let after_a = snap_of(&ha.value().kwrite());
            let j: usize = kani::any();
            kani::assume(j >= entries - 9 && j < entries);
            let jb: usize = kani::any();
            kani::assume(jb < 9);
            let a_b = rc(&before_a, order, j);
            let a_a = rc(&after_a, order, j);
            let b_a = cnt_b(&hb.value().kwrite(), jb);
            let b_b = if jb < 4 { b_before[jb] } else { 0 };
            if fail {
                // nothing can be loaded: no counter changes at all, and the run is not reported as freed
                assert!(a_a == a_b && b_a == b_b);
                assert!(!ha.is_dirty() && !hb.is_dirty());
                assert!(r.is_err());
                assert!(env.free_cluster_offset.load(Ordering::Relaxed) == hint);
            } else {
                assert!(r.is_ok());
                if j >= start { assert!(a_a == a_b - 1); } else { assert!(a_a == a_b); }
                if jb < count - d { assert!(b_a == b_b - 1); } else { assert!(b_a == b_b); }
                assert!(ha.is_dirty() && hb.is_dirty() && env.need_flush_meta());
                let new_hint = env.free_cluster_offset.load(Ordering::Relaxed);
                let now = |i: usize| -> u64 {
                    if i < d { rc(&after_a, order, start + i) } else { cnt_b(&hb.value().kwrite(), i - d) }
                };
                let first_free: Option<u64> = if now(0) == 0 {
                    Some(host)
                } else if count > 1 && now(1) == 0 {
                    Some(host + cs)
                } else if count > 2 && now(2) == 0 {
                    Some(host + 2 * cs)
                } else {
                    None
                };
                match first_free {
                    Some(f) => assert!(new_hint == core::cmp::min(hint, f)),
                    None => assert!(new_hint == hint),
                }
            }
            // witness: the end is reached (and, when loading works, with a counter of the SECOND slice dropped)
            kani::cover!(fail || (jb == 0 && b_a + 1 == b_b && j == entries - 1 && a_a + 1 == a_b));
            core::mem::forget(r);
            core::mem::forget(env);
        }
    };
}

// @harness c08_free_across_slices_d1
// @props C08 C03 C18 C17
// @tier quick
// @cost 60
// @timeout 1500
// @needs A0
// @desc whole free_clusters on a run that STARTS in one refcount slice and ENDS in the next one (outer loop taken twice): every cluster of the run loses exactly one reference in the slice that holds its counter -- the tail of the first slice and the head of the second --, no other counter of either slice changes, both slices are marked dirty, need_flush is set, the hint becomes min(old hint, first cluster of the run whose count reached 0); and when a slice cannot be loaded the call either returns the error or skips ahead, never touches a counter outside the run and never drops a reference twice
// @bounds 64 KiB clusters, 16-bit refcounts, two adjacent real 512-byte slices (256 counters each) with arbitrary counters in the last 4 entries of the first and the first 4 of the second; runs of 3 clusters starting 1 (_d1) or 2 (_d2) entries before the slice boundary (the _fail instance: 2 clusters, 1 entry before); any old hint; slice load succeeds (the _fail instance: fails)
// @assume get_refblock shimmed (returns the slice whose key the cluster has, or fails); caller holds a reference to every cluster of the run
// @funcs Qcow2Dev::free_clusters HostCluster::{rb_slice_index,rb_slice_host_end,rb_slice_key,rt_index} RefBlock::decrement RefBlock::get
// @stub alloc::fmt::format -> String::new()
free_across!(c08_free_across_slices_d1, 1, 3, false);

// @harness c08_free_across_slices_d2
// @props C08 C03 C18 C17
// @tier quick
// @cost 60
// @timeout 1500
// @needs A0
// @desc as c08_free_across_slices_d1 with the run starting two entries before the slice boundary (count 3)
// @bounds 64 KiB clusters, 16-bit refcounts, two adjacent real 512-byte slices (256 counters each) with arbitrary counters in the last 4 entries of the first and the first 4 of the second; runs of 3 clusters starting 1 (_d1) or 2 (_d2) entries before the slice boundary (the _fail instance: 2 clusters, 1 entry before); any old hint; slice load succeeds (the _fail instance: fails)
// @assume get_refblock shimmed (returns the slice whose key the cluster has, or fails); caller holds a reference to every cluster of the run
// @funcs Qcow2Dev::free_clusters HostCluster::{rb_slice_index,rb_slice_host_end,rb_slice_key,rt_index} RefBlock::decrement RefBlock::get
// @stub alloc::fmt::format -> String::new()
free_across!(c08_free_across_slices_d2, 2, 3, false);

// @harness c08_free_across_slices_fail
// @props C08 C03 C18 C17
// @tier quick
// @cost 60
// @timeout 1500
// @needs A0
// @desc whole free_clusters on a run crossing a slice boundary when NO refcount slice can be loaded: the error is returned, no counter of either slice changes, neither slice is marked dirty and the hint does not move (nothing is reported freed that was not)
// @bounds 64 KiB clusters, 16-bit refcounts, two adjacent real 512-byte slices (256 counters each) with arbitrary counters in the last 4 entries of the first and the first 4 of the second; runs of 3 clusters starting 1 (_d1) or 2 (_d2) entries before the slice boundary (the _fail instance: 2 clusters, 1 entry before); any old hint; slice load succeeds (the _fail instance: fails)
// @assume get_refblock shimmed (returns the slice whose key the cluster has, or fails); caller holds a reference to every cluster of the run
// @funcs Qcow2Dev::free_clusters HostCluster::{rb_slice_index,rb_slice_host_end,rb_slice_key,rt_index} RefBlock::decrement RefBlock::get
// @stub alloc::fmt::format -> String::new()
free_across!(c08_free_across_slices_fail, 1, 2, true);
