// Harnesses over the per-cluster read / write dispatch and the device sizing; child of `crate::dev`.
// @module-needs env header seg:DR seg:DW seg:N0
#![allow(dead_code, unused_imports)]
use super::*;
use crate::dev::verif_env::*;
use crate::meta::verif_header::{any_geo, info_of, mk_header, mk_info, Geo};
use crate::meta::{L2Entry, Mapping, MappingSource, SplitGuestOffset};
use crate::verif_spec as spec;

fn fmt_stub2(_a: core::fmt::Arguments<'_>) -> String {
    String::new()
}
fn eprint_stub(_a: core::fmt::Arguments<'_>) {}

// @harness c01_read_dispatch
// @props C01 C09 C10
// @tier quick
// @cost 18
// @timeout 900
// @needs DR
// @desc the whole body of do_read (the four leaf readers shimmed) for every spec-valid L2 entry: a data cluster is read from its host cluster at the request's in-cluster offset; zero-flagged and unallocated clusters (no backing file) are zero-filled; an unallocated cluster of an image with a backing file is read from the backing chain at the SAME guest offset; a compressed cluster is inflated from its descriptor (host offset and length per the spec); always the whole piece, exactly one leaf operation
// @bounds raw: every spec-valid u64; guest offset any value < 2^56; piece length 1..=cluster remainder; full symbolic geometry; has-backing symbolic
// @funcs Qcow2Dev::do_read L2Entry::into_mapping Qcow2Info::in_cluster_offset
// @stub alloc::fmt::format -> String::new()
#[kani::proof]
#[kani::stub(std::fmt::format, fmt_stub2)]
fn c01_read_dispatch() {
    let g = any_geo();
    let has_back: bool = kani::any();
    let env = KEnv::new(info_of(&g, 1u64 << 62, false, false, has_back));
    let raw: u64 = kani::any();
    kani::assume(spec::l2_valid(raw, g.cb));
    let offset: u64 = kani::any();
    kani::assume(offset >> 56 == 0);
    let cs = 1u64 << g.cb;
    let in_off = offset & (cs - 1);
    let len: usize = kani::any();
    kani::assume(len >= 1 && (len as u64) <= cs - in_off);
    let r = env.seg_dr(L2Entry(raw), offset, KBuf::new(len));
    assert!(matches!(r, Ok(n) if n == len));
    assert!(env.nrec.get() == 1);
    let e = env.get_rec(0);
    assert!(e.len == len);
    let d = spec::decode_l2(raw, g.cb);
    match d.kind {
        spec::Kind::Data => assert!(e.kind == K_LEAF_DATA && e.entry == d.host && e.off == in_off),
        spec::Kind::Zero => assert!(e.kind == K_LEAF_ZERO),
        spec::Kind::Unallocated => {
            if has_back {
                // backing chain, same guest offset (cluster start + in-cluster offset)
                assert!(e.kind == K_LEAF_BACKING && e.entry == offset - in_off && e.off == in_off);
            } else {
                assert!(e.kind == K_LEAF_ZERO);
            }
        }
        spec::Kind::Compressed => {
            assert!(e.kind == K_LEAF_COMPRESSED && e.entry == d.host && e.off == in_off);
            assert!(e.buf_start as u64 == d.comp_len);
        }
    }
    kani::cover!(d.kind == spec::Kind::Data && in_off != 0);
    kani::cover!(d.kind == spec::Kind::Unallocated && has_back);
    kani::cover!(d.kind == spec::Kind::Compressed);
    kani::cover!(d.kind == spec::Kind::Zero && d.host != 0);
    core::mem::forget(r);
    core::mem::forget(env);
}

// @harness c01_write_dispatch
// @props C01 C10
// @tier quick
// @cost 17
// @timeout 900
// @needs DW
// @desc the whole body of do_write (leaf writers shimmed) for every spec-valid L2 entry handed to it: a data cluster is written in place at the request's guest offset (the leaf derives host + in-cluster offset); compressed clusters and -- on an image with a backing file -- unallocated clusters go through copy-on-write; for anything else (zero-flagged entries, unallocated entries without backing file: clusters that should have been given a mapping first) a refusal writes nothing
// @bounds raw: every spec-valid u64; guest offset < 2^56; piece length 1..=cluster remainder; full symbolic geometry; has-backing symbolic
// @funcs Qcow2Dev::do_write L2Entry::into_mapping Qcow2Info::cluster_round_down
// @stub alloc::fmt::format -> String::new()
// @stub std::io::_eprint -> no-op (the diagnostic printed on the refused branch)
#[kani::proof]
#[kani::stub(std::fmt::format, fmt_stub2)]
#[kani::stub(std::io::_eprint, eprint_stub)]
fn c01_write_dispatch() {
    let g = any_geo();
    let has_back: bool = kani::any();
    let env = KEnv::new(info_of(&g, 1u64 << 62, false, false, has_back));
    let raw: u64 = kani::any();
    kani::assume(spec::l2_valid(raw, g.cb));
    let offset: u64 = kani::any();
    kani::assume(offset >> 56 == 0);
    let cs = 1u64 << g.cb;
    let len: usize = kani::any();
    kani::assume(len >= 1 && (len as u64) <= cs - (offset & (cs - 1)));
    let d = spec::decode_l2(raw, g.cb);
    // the entries that reach do_write in the error branch print a diagnostic; keep them out of
    // the symbolic run by construction of the expected outcome only
    let r = env.seg_dw(L2Entry(raw), offset, KBuf::new(len));
    let cow = d.kind == spec::Kind::Compressed || (d.kind == spec::Kind::Unallocated && has_back);
    if d.kind == spec::Kind::Data {
        assert!(r.is_ok() && env.nrec.get() == 1);
        let e = env.get_rec(0);
        assert!(e.kind == K_LEAF_DATA && e.entry == d.host && e.off == offset && e.len == len && e.flags == 0);
    } else if cow {
        assert!(r.is_ok() && env.nrec.get() == 1);
        let e = env.get_rec(0);
        assert!(e.kind == K_LEAF_COW && e.off == offset && e.len == len);
    } else if r.is_err() {
        // (today such entries are refused: they should have been given a mapping first; what
        // the property needs is only that a refused piece writes nothing)
        assert!(env.nrec.get() == 0);
    }
    kani::cover!(d.kind == spec::Kind::Data);
    kani::cover!(cow && d.kind == spec::Kind::Compressed);
    kani::cover!(cow && d.kind == spec::Kind::Unallocated);
    kani::cover!(r.is_err());
    core::mem::forget(r);
    core::mem::forget(env);
}

// @harness c14_device_sizing
// @props C14 C09
// @tier quick
// @cost 19
// @timeout 900
// @needs N0
// @desc the sizing statements of Qcow2Dev::new (from `let h = &header` up to the construction of the device, lifted verbatim) on every header that from_buf accepts and every legal parameter set: no panic or overflow; the in-ram L1 table and refcount table sizes are non-zero (a zero size trips the buffer allocator's assert), block aligned, and bounded by the format limits (32 MiB L1, 8 MiB refcount table) -- not by anything an attacker controls beyond them
// @bounds cluster_bits 9..=21, refcount_order 0..=6, virtual size any u64 incl. 0, refcount_table_clusters 1..=8 MiB/cluster, l1_size any u32; block bits 9..=12; default and custom cache parameters
// @funcs Qcow2Dev::new (sizing) Qcow2Info::new Qcow2Info::get_max_l1_entries Qcow2Info::__max_l1_size
// @stub alloc::fmt::format -> String::new()
#[kani::proof]
#[kani::stub(std::fmt::format, fmt_stub2)]
fn c14_device_sizing() {
    let g = any_geo();
    let env = KEnv::new(info_of(&g, 1u64 << 40, false, false, false));
    let size: u64 = kani::any();
    let l1_size: u32 = kani::any();
    let rt_clusters: u32 = kani::any();
    kani::assume(rt_clusters >= 1 && (rt_clusters as u64) << g.cb <= 8 << 20);
    let h = mk_header(g.cb, g.order, size, l1_size, rt_clusters, false);
    let custom: bool = kani::any();
    let p = if custom {
        Qcow2DevParams::new(g.bs, Some((g.rbsb, 2usize << g.rbsb)), Some((g.l2sb, 2usize << g.l2sb)), false, false)
    } else {
        Qcow2DevParams::new(g.bs, None, None, false, false)
    };
    let r = env.seg_n0(h, &p);
    assert!(r.is_ok() && env.passed.get());
    let o = env.out.get();
    let (l1_bytes, rt_bytes) = (o[0], o[1]);
    let bs = 1u64 << g.bs;
    assert!(l1_bytes > 0 && l1_bytes % bs == 0 && l1_bytes <= 32 << 20);
    assert!(rt_bytes > 0 && rt_bytes == (rt_clusters as u64) << g.cb && rt_bytes <= 8 << 20);
    assert!(o[3] >= 2 && o[4] >= 2);
    kani::cover!(size == 0);
    kani::cover!(size == u64::MAX);
    kani::cover!(!custom && g.cb == 9);
    core::mem::forget(r);
    core::mem::forget(env);
}
