// Harness over __make_multiple_write_mapping lifted from src/dev/write.rs; child of `crate::dev`.
// @module-needs env header write seg:M0
#![allow(dead_code, unused_imports)]
use super::*;
use crate::dev::verif_env::*;
use crate::meta::verif_header::{any_geo, info_of, mk_info, Geo};
use crate::meta::{L1Entry, L2Entry, L2Table, Mapping, MappingSource, SplitGuestOffset, Table, TableEntry};
use crate::verif_spec as spec;

fn fmt_stub2(_a: core::fmt::Arguments<'_>) -> String {
    String::new()
}

fn needs_cluster(raw: u64, cb: u32, has_back: bool) -> bool {
    let d = spec::decode_l2(raw, cb);
    match d.kind {
        spec::Kind::Data => !d.copied,
        spec::Kind::Zero => true,
        spec::Kind::Compressed => false,
        spec::Kind::Unallocated => !has_back,
    }
}

// @harness c01_multi_write_mapping
// @props C01 C03 C18
// @tier quick
// @cost 206
// @timeout 2400
// @needs M0
// @desc the whole body of __make_multiple_write_mapping (lookups, lock and allocator shimmed; the allocator may grant fewer clusters than asked): the batch never leaves the L2 slice it started in; for the clusters it processed, in guest order, exactly those that need a fresh cluster are mapped to COPIED | (granted start + j*cluster_size) with j counting the mapped clusters so far, never more than were granted; copy-on-write sources and in-place clusters keep their entry; one entry is reported per processed cluster and equals what the slice now holds; unprocessed entries are untouched; every mapped host cluster is registered as new; slice dirty + need_flush iff something was mapped
// @bounds 512-byte slice (64 entries), arbitrary spec-valid entries in its last 4 slots; batch starts in the last 4 clusters of the slice and asks for 1..=4 clusters (may reach beyond the slice); 64 KiB clusters; allocator grants 1..=asked clusters at any aligned offset < 2^56; has-backing symbolic
// @funcs Qcow2Dev::__make_multiple_write_mapping (whole body) Qcow2Dev::need_make_mapping L2Table::{get_mapping,get_entry,map_cluster}
// @stub alloc::fmt::format -> String::new()
#[kani::proof]
#[kani::unwind(10)]
#[kani::stub(std::fmt::format, fmt_stub2)]
fn c01_multi_write_mapping() {
    let cb = 16u32;
    let has_back: bool = kani::any();
    let info = mk_info(cb, 4, 1u64 << 40, 9, Some((9, 1024)), Some((10, 2048)), false, false, has_back);
    let mut env = KEnv::new(info);
    let nf0: bool = kani::any();
    env.mark_need_flush(nf0);
    let cs = 1u64 << cb;
    let before: [u64; 4] = kani::any();
    let mut t = L2Table::new(Some(0x10000), 512, cb as usize);
    let mut i = 0;
    while i < 4 {
        kani::assume(spec::l2_valid(before[i], cb));
        t.set(60 + i, L2Entry(before[i]));
        i += 1;
    }
    env.l2_slice = Some(KHandle::new(t));
    env.l1_entry = unsafe { core::mem::transmute::<u64, L1Entry>(0x8000_0000_0005_0000u64) };
    let first: u64 = kani::any();
    kani::assume(first >= 60 && first <= 63);
    let want: u64 = kani::any();
    kani::assume(want >= 1 && want <= 4);
    let slice_base: u64 = 5 * 64; // slice key 5
    let start = (slice_base + first) << cb;
    let end = start + want * cs;
    let host: u64 = kani::any();
    // the whole granted run lies below 2^56 (host offsets an L2 entry can hold)
    kani::assume(host != 0 && host & (cs - 1) == 0 && host >> 55 == 0);
    env.alloc_off = host;
    let granted: usize = kani::any();
    kani::assume(granted >= 1 && granted <= 4);
    env.alloc_cnt = granted;
    let mut out: KVec<L2Entry> = KVec::new();
    let r = env.seg_m0(start, end, &mut out);
    assert!(r.is_ok());
    let done = match &r {
        Ok(d) => *d,
        Err(_) => 0,
    };
    // stays inside the slice and inside the request
    assert!(done >= 1 && (done as u64) <= want && first + done as u64 <= 64);
    assert!(out.len() == done);
    let h = env.l2_slice.as_ref().unwrap();
    let tbl = h.value().kwrite();
    let mut mapped = 0usize;
    let mut k = 0usize;
    for e in out {
        let slot = (first as usize) + k;
        let old = before[slot - 60];
        let now = tbl.get(slot).0;
        assert!(e.0 == now);
        if needs_cluster(old, cb, has_back) {
            assert!(mapped < granted);
            assert!(now == spec::COPIED | (host + (mapped as u64) * cs));
            mapped += 1;
        } else {
            assert!(now == old);
        }
        k += 1;
    }
    // unprocessed slots are untouched
    let u: usize = kani::any();
    kani::assume(u >= 60 && u < 64 && u >= first as usize + done);
    assert!(tbl.get(u).0 == before[u - 60]);
    assert!(mapped <= granted);
    assert!(env.count(K_NEWCLUSTER) == mapped);
    if mapped > 0 {
        assert!(h.is_dirty() && env.need_flush_meta());
    } else {
        assert!(env.need_flush_meta() == nf0);
    }
    kani::cover!(mapped == 2 && done == 3, "mixed batch");
    kani::cover!(first + want > 64, "request reaching beyond the slice is clipped");
    kani::cover!(mapped == 0);
    kani::cover!(mapped == granted && (done as u64) < want && first + (done as u64) < 64, "allocator granted fewer clusters than needed");
    drop(tbl);
    core::mem::forget(r);
    core::mem::forget(env);
}
