// Harness over add_cache_slice lifted from src/dev/alloc.rs; child of `crate::dev`.
// @module-needs env header seg:S0
#![allow(dead_code, unused_imports)]
use super::*;
use crate::dev::verif_env::*;
use crate::meta::verif_header::{any_geo, info_of, mk_info, Geo};
use crate::meta::{L1Entry, L2Entry, L2Table, Table, TableEntry};
use crate::verif_spec as spec;

fn fmt_stub2(_a: core::fmt::Arguments<'_>) -> String {
    String::new()
}

// @harness c18_add_cache_slice
// @props C18 C16 C01 C02
// @tier quick
// @cost 20
// @timeout 900
// @needs S0
// @desc the whole body of add_cache_slice (cache slot, new-cluster lookup and backend read shimmed; L2Table instantiation): a slice that is not cached yet gets the host offset parent_entry + slice_off; if its cluster is not new it is loaded by exactly one read of the slice size at that (block-aligned) offset, it stays clean and the device-wide need_flush flag is NOT changed -- in particular never cleared while other metadata is dirty; if the cluster is new nothing is read, the slice is dirty and need_flush is set; an already loaded slice is left alone
// @bounds L2 slice of 512 bytes; parent L1 entry: any cluster-aligned offset < 2^56; slice_off: any multiple of 512 inside a cluster; cluster_bits 9..=21 symbolic; previous need_flush value, new/not-new, cached/not-cached symbolic
// @funcs Qcow2Dev::add_cache_slice (whole body, B = L2Table, E = L1Entry) Table::{is_update,set_offset,byte_size}
// @stub alloc::fmt::format -> String::new()
#[kani::proof]
#[kani::unwind(10)]
#[kani::stub(std::fmt::format, fmt_stub2)]
fn c18_add_cache_slice() {
    let g = any_geo();
    kani::assume(g.bs == 9 && g.l2sb == 9);
    let env = KEnv::new(info_of(&g, 1u64 << 40, false, false, false));
    let cs = 1u64 << g.cb;
    let l2_off: u64 = kani::any();
    kani::assume(l2_off != 0 && l2_off & (cs - 1) == 0 && l2_off >> 56 == 0);
    let l1e = unsafe { core::mem::transmute::<u64, L1Entry>(spec::COPIED | l2_off) };
    let slice_off: usize = kani::any();
    kani::assume(slice_off % 512 == 0 && (slice_off as u64) < cs);
    let nf0: bool = kani::any();
    env.mark_need_flush(nf0);
    env.cluster_new.set(kani::any());
    let slot: KSlot<L2Table> = KSlot::empty();
    let cached: bool = kani::any();
    if cached {
        // someone else loaded it already
        let t = L2Table::new(Some(l2_off + slice_off as u64), 512, g.cb as usize);
        let _ = slot.put_into_wmap_with(7, || KLock::new(t));
    }
    let fresh = L2Table::new(None, 512, g.cb as usize);
    let r = env.seg_s0(&slot, &l1e, 7, slice_off, fresh);
    assert!(r.is_ok());
    let h = slot.cell.get().unwrap();
    let t = h.value().kwrite();
    assert!(t.get_offset() == Some(l2_off + slice_off as u64));
    if cached {
        assert!(env.nrec.get() == 0 && !h.is_dirty() && env.need_flush_meta() == nf0);
    } else if env.cluster_new.get() {
        assert!(env.count(K_BACKEND_READ) == 0);
        assert!(h.is_dirty() && env.need_flush_meta());
    } else {
        assert!(env.count(K_BACKEND_READ) == 1);
        let rd = env.get_rec(1);
        assert!(rd.kind == K_BACKEND_READ && rd.off == l2_off + slice_off as u64 && rd.len == 512);
        assert!(rd.off % 512 == 0);
        assert!(!h.is_dirty());
        // loading a clean slice must not touch the device-wide flag
        assert!(env.need_flush_meta() == nf0);
    }
    assert!(env.get_rec(0).kind == K_ISNEW || cached);
    if !cached {
        assert!(env.get_rec(0).off == (l2_off + slice_off as u64) >> g.cb);
    }
    kani::cover!(!cached && !env.cluster_new.get() && nf0, "clean load while other metadata is dirty");
    kani::cover!(!cached && env.cluster_new.get());
    kani::cover!(cached);
    drop(t);
    core::mem::forget(r);
    core::mem::forget(env);
}
