// Harness module injected as a child of `crate::meta::header` (sees the private fields of
// Qcow2RawHeader / Qcow2Header and the private Qcow2HeaderExtension::from).
#![allow(dead_code, unused_imports)]
use super::*;
use crate::dev::{Qcow2DevParams, Qcow2Info};
use crate::verif_spec as spec;

pub(crate) fn fmt_stub(_args: core::fmt::Arguments<'_>) -> String {
    String::new()
}

/// Build a header directly (no parsing): numeric fields as given, no strings.
pub(crate) fn mk_header(
    cluster_bits: u32,
    refcount_order: u32,
    size: u64,
    l1_size: u32,
    rt_clusters: u32,
    has_backing: bool,
) -> Qcow2Header {
    Qcow2Header {
        raw: Qcow2RawHeader {
            magic: Qcow2Header::QCOW2_MAGIC,
            version: 3,
            cluster_bits,
            size,
            refcount_order,
            header_length: 112,
            l1_table_offset: 3u64 << cluster_bits,
            l1_size,
            refcount_table_offset: 1u64 << cluster_bits,
            refcount_table_clusters: rt_clusters,
            ..Default::default()
        },
        backing_filename: if has_backing { Some(String::new()) } else { None },
        extensions: Vec::new(),
    }
}

/// Qcow2Info derived by the REAL `Qcow2Info::new` from a directly built header.
pub(crate) fn mk_info(
    cb: u32,
    order: u32,
    size: u64,
    bs_bits: u8,
    l2_cache: Option<(u8, usize)>,
    rb_cache: Option<(u8, usize)>,
    read_only: bool,
    backing_dev: bool,
    has_backing: bool,
) -> Qcow2Info {
    let h = mk_header(cb, order, size, 1, 1, has_backing);
    let mut p = Qcow2DevParams::new(bs_bits, rb_cache, l2_cache, read_only, false);
    if backing_dev {
        p.mark_backing_dev(Some(true));
    }
    match Qcow2Info::new(&h, &p) {
        Ok(i) => {
            core::mem::forget(h);
            i
        }
        Err(e) => {
            core::mem::forget(e);
            kani::assume(false);
            unreachable!()
        }
    }
}

/// symbolic geometry over the whole supported range:
/// cluster_bits 9..=21, refcount_order 0..=6, block bits 9..=12 (<= cluster_bits),
/// slice bits in [block bits, cluster_bits], two cache slices each.
pub(crate) struct Geo {
    pub cb: u32,
    pub order: u32,
    pub bs: u8,
    pub l2sb: u8,
    pub rbsb: u8,
}

pub(crate) fn any_geo() -> Geo {
    let cb: u32 = kani::any();
    let order: u32 = kani::any();
    let bs: u8 = kani::any();
    let l2sb: u8 = kani::any();
    let rbsb: u8 = kani::any();
    kani::assume(cb >= 9 && cb <= 21);
    kani::assume(order <= 6);
    kani::assume(bs >= 9 && bs <= 12 && (bs as u32) <= cb);
    kani::assume(l2sb >= bs && (l2sb as u32) <= cb);
    kani::assume(rbsb >= bs && (rbsb as u32) <= cb);
    Geo { cb, order, bs, l2sb, rbsb }
}

pub(crate) fn info_of(g: &Geo, size: u64, read_only: bool, backing_dev: bool, has_backing: bool) -> Qcow2Info {
    mk_info(
        g.cb,
        g.order,
        size,
        g.bs,
        Some((g.l2sb, 2usize << g.l2sb)),
        Some((g.rbsb, 2usize << g.rbsb)),
        read_only,
        backing_dev,
        has_backing,
    )
}

// @harness spec_selftest
// @props C15 C09 C01 C03 C08
// @tier quick
// @timeout 120
// @desc the independent spec model reproduces the specification's worked numbers (model self-test)
// @bounds concrete
// @funcs (none: model only)
#[kani::proof]
#[kani::unwind(9)]
fn spec_selftest() {
    spec::selftest_constants();
    kani::cover!(true);
}
