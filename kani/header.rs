// Harness module injected as a child of `crate::meta::header` (sees the private fields of
// Qcow2RawHeader / Qcow2Header and the private Qcow2HeaderExtension::from).
#![allow(dead_code, unused_imports)]
use super::*;
use crate::dev::{Qcow2DevParams, Qcow2Info};
use crate::verif_spec as spec;

pub(crate) fn fmt_stub(_args: core::fmt::Arguments<'_>) -> String {
    String::new()
}

/// Build a header directly (no parsing): numeric fields as given, no strings.
pub(crate) fn mk_header(
    cluster_bits: u32,
    refcount_order: u32,
    size: u64,
    l1_size: u32,
    rt_clusters: u32,
    has_backing: bool,
) -> Qcow2Header {
    Qcow2Header {
        raw: Qcow2RawHeader {
            magic: Qcow2Header::QCOW2_MAGIC,
            version: 3,
            cluster_bits,
            size,
            refcount_order,
            header_length: 112,
            l1_table_offset: 3u64 << cluster_bits,
            l1_size,
            refcount_table_offset: 1u64 << cluster_bits,
            refcount_table_clusters: rt_clusters,
            ..Default::default()
        },
        backing_filename: if has_backing { Some(String::new()) } else { None },
        extensions: Vec::new(),
    }
}

/// Qcow2Info derived by the REAL `Qcow2Info::new` from a directly built header.
pub(crate) fn mk_info(
    cb: u32,
    order: u32,
    size: u64,
    bs_bits: u8,
    l2_cache: Option<(u8, usize)>,
    rb_cache: Option<(u8, usize)>,
    read_only: bool,
    backing_dev: bool,
    has_backing: bool,
) -> Qcow2Info {
    let h = mk_header(cb, order, size, 1, 1, has_backing);
    let mut p = Qcow2DevParams::new(bs_bits, rb_cache, l2_cache, read_only, false);
    if backing_dev {
        p.mark_backing_dev(Some(true));
    }
    match Qcow2Info::new(&h, &p) {
        Ok(i) => {
            core::mem::forget(h);
            i
        }
        Err(e) => {
            core::mem::forget(e);
            kani::assume(false);
            unreachable!()
        }
    }
}

/// symbolic geometry over the whole supported range:
/// cluster_bits 9..=21, refcount_order 0..=6, block bits 9..=12 (<= cluster_bits),
/// slice bits in [block bits, cluster_bits], two cache slices each.
pub(crate) struct Geo {
    pub cb: u32,
    pub order: u32,
    pub bs: u8,
    pub l2sb: u8,
    pub rbsb: u8,
}

pub(crate) fn any_geo() -> Geo {
    let cb: u32 = kani::any();
    let order: u32 = kani::any();
    let bs: u8 = kani::any();
    let l2sb: u8 = kani::any();
    let rbsb: u8 = kani::any();
    kani::assume(cb >= 9 && cb <= 21);
    kani::assume(order <= 6);
    kani::assume(bs >= 9 && bs <= 12 && (bs as u32) <= cb);
    kani::assume(l2sb >= bs && (l2sb as u32) <= cb);
    kani::assume(rbsb >= bs && (rbsb as u32) <= cb);
    Geo { cb, order, bs, l2sb, rbsb }
}

pub(crate) fn info_of(g: &Geo, size: u64, read_only: bool, backing_dev: bool, has_backing: bool) -> Qcow2Info {
    mk_info(
        g.cb,
        g.order,
        size,
        g.bs,
        Some((g.l2sb, 2usize << g.l2sb)),
        Some((g.rbsb, 2usize << g.rbsb)),
        read_only,
        backing_dev,
        has_backing,
    )
}

// @harness spec_selftest
// @props C15 C09 C01 C03 C08
// @tier quick
// @cost 1
// @timeout 120
// @desc the independent spec model reproduces the specification's worked numbers (model self-test)
// @bounds concrete
// @funcs (none: model only)
#[kani::proof]
#[kani::unwind(9)]
fn spec_selftest() {
    spec::selftest_constants();
    kani::cover!(true);
}

// =========================================================================================
// header parsing (C14 / C09 / C15 / C16)
// =========================================================================================
use std::collections::HashMap;

fn hm_insert_stub<K, V, S, A: std::alloc::Allocator>(
    _m: &mut HashMap<K, V, S, A>,
    _k: K,
    _v: V,
) -> Option<V> {
    None
}
fn rs_new_stub() -> std::hash::RandomState {
    unsafe { core::mem::transmute::<(u64, u64), std::hash::RandomState>((1, 2)) }
}
fn lossy_stub(_v: &[u8]) -> std::borrow::Cow<'_, str> {
    std::borrow::Cow::Borrowed("")
}

const HLEN: usize = 112; // size_of::<Qcow2RawHeader>() = 105 rounded up to 8

fn put32(b: &mut [u8], at: usize, v: u32) {
    let x = v.to_be_bytes();
    b[at] = x[0];
    b[at + 1] = x[1];
    b[at + 2] = x[2];
    b[at + 3] = x[3];
}
fn put64(b: &mut [u8], at: usize, v: u64) {
    put32(b, at, (v >> 32) as u32);
    put32(b, at + 4, v as u32);
}

/// numeric header fields, big endian, at the byte offsets of the specification
struct Fields {
    version: u32,
    cluster_bits: u32,
    size: u64,
    crypt_method: u32,
    l1_size: u32,
    l1_table_offset: u64,
    refcount_table_offset: u64,
    refcount_table_clusters: u32,
    nb_snapshots: u32,
    snapshots_offset: u64,
    incompatible: u64,
    compatible: u64,
    autoclear: u64,
    refcount_order: u32,
    header_length: u32,
    compression_type: u8,
}

fn any_fields() -> Fields {
    Fields {
        version: kani::any(),
        cluster_bits: kani::any(),
        size: kani::any(),
        crypt_method: kani::any(),
        l1_size: kani::any(),
        l1_table_offset: kani::any(),
        refcount_table_offset: kani::any(),
        refcount_table_clusters: kani::any(),
        nb_snapshots: kani::any(),
        snapshots_offset: kani::any(),
        incompatible: 0,
        compatible: kani::any(),
        autoclear: kani::any(),
        refcount_order: kani::any(),
        header_length: HLEN as u32,
        compression_type: kani::any(),
    }
}

fn emit(b: &mut [u8], f: &Fields) {
    put32(b, 0, Qcow2Header::QCOW2_MAGIC);
    put32(b, 4, f.version);
    put64(b, 8, 0); // no backing file name
    put32(b, 16, 0);
    put32(b, 20, f.cluster_bits);
    put64(b, 24, f.size);
    put32(b, 32, f.crypt_method);
    put32(b, 36, f.l1_size);
    put64(b, 40, f.l1_table_offset);
    put64(b, 48, f.refcount_table_offset);
    put32(b, 56, f.refcount_table_clusters);
    put32(b, 60, f.nb_snapshots);
    put64(b, 64, f.snapshots_offset);
    put64(b, 72, f.incompatible);
    put64(b, 80, f.compatible);
    put64(b, 88, f.autoclear);
    put32(b, 96, f.refcount_order);
    put32(b, 100, f.header_length);
    b[104] = f.compression_type;
}

macro_rules! header_fields {
    ($name:ident, $ver:expr) => {
#[kani::proof]
#[kani::unwind(4)]
#[kani::stub(alloc::fmt::format, fmt_stub)]
fn $name() {
    let mut f = any_fields();
    // concrete version: a symbolic one makes the start of the extension walk symbolic
    f.version = $ver;
    let mut buf = [0u8; 120];
    emit(&mut buf, &f);
    let r = Qcow2Header::from_buf(&buf);
    let cs = 1u64 << (f.cluster_bits & 31);
    let spec_ok = f.version == 3
        && f.cluster_bits >= 9
        && f.cluster_bits <= 21
        && f.l1_table_offset & (cs - 1) == 0
        && f.refcount_table_offset & (cs - 1) == 0
        && f.crypt_method == 0
        && f.refcount_order <= 6
        && f.refcount_table_clusters >= 1
        && (f.refcount_table_clusters as u64) << f.cluster_bits <= 8 << 20;
    match &r {
        Ok(h) => {
            assert!(f.version >= 2);
            assert!(f.cluster_bits >= 9 && f.cluster_bits <= 21);
            assert!(h.l1_table_offset() & (cs - 1) == 0 && h.reftable_offset() & (cs - 1) == 0);
            assert!(h.crypt_method() == 0);
            assert!(h.refcount_order() <= 6);
            assert!(h.reftable_clusters() >= 1);
            assert!((h.reftable_clusters() as u64) << h.cluster_bits() <= 8 << 20);
            assert!(h.cluster_bits() == f.cluster_bits && h.size() == f.size);
            assert!(h.l1_table_offset() == f.l1_table_offset && h.l1_table_entries() == f.l1_size as usize);
            assert!(h.reftable_offset() == f.refcount_table_offset);
            assert!(h.reftable_clusters() == f.refcount_table_clusters as usize);
            assert!(h.nb_snapshots() == f.nb_snapshots && h.snapshots_offset() == f.snapshots_offset);
            assert!(h.backing_filename().is_none());
            if f.version == 2 {
                // "For version 2 images, the order is always assumed to be 4"
                assert!(h.refcount_order() == 4);
            } else {
                assert!(h.refcount_order() == f.refcount_order);
            }
        }
        Err(_) => assert!(!spec_ok),
    }
    kani::cover!(r.is_ok() || $ver < 2, "accepted header");
    kani::cover!(r.is_err(), "refused header");
    core::mem::forget(r);
}
    };
}

// @harness c14_header_fields
// @props C14 C09
// @tier quick
// @cost 52
// @timeout 900
// @cbmc --max-field-sensitivity-array-size 256
// @desc Qcow2Header::from_buf on a 120-byte v2/v3 header (no backing name, END extension) whose numeric fields are ALL symbolic: never panics; Ok => version >= 2, 9 <= cluster_bits <= 21, both table offsets cluster aligned, crypt_method == 0 (encryption is unsupported and must be refused), refcount_order <= 6, a refcount table of 1..=8 MiB/cluster_size clusters (so the table buffer sized from the header is neither empty nor out of proportion); every spec-valid supported v3 header is accepted and the getters return the field values
// @bounds buffer 120 bytes; version 3 (concrete per instance); cluster_bits, size, crypt_method, l1_size, table offsets, refcount_table_clusters, snapshot fields, compatible/autoclear bits, refcount_order, compression_type: all values; incompatible_features = 0, header_length = 112, backing_file_offset = 0 concrete
// @funcs Qcow2Header::from_buf Qcow2HeaderExtension::from (END arm) bincode deserialize of Qcow2RawHeader
// @stub alloc::fmt::format -> String::new()
header_fields!(c14_header_fields, 3);

// @harness c14_header_fields_v2
// @props C14 C09
// @tier quick
// @cost 42
// @timeout 900
// @cbmc --max-field-sensitivity-array-size 256
// @desc Qcow2Header::from_buf on a 120-byte v2/v3 header (no backing name, END extension) whose numeric fields are ALL symbolic: never panics; Ok => version >= 2, 9 <= cluster_bits <= 21, both table offsets cluster aligned, crypt_method == 0 (encryption is unsupported and must be refused), refcount_order <= 6, a refcount table of 1..=8 MiB/cluster_size clusters (so the table buffer sized from the header is neither empty nor out of proportion); every spec-valid supported v3 header is accepted and the getters return the field values
// @bounds buffer 120 bytes; version 2 (concrete per instance); cluster_bits, size, crypt_method, l1_size, table offsets, refcount_table_clusters, snapshot fields, compatible/autoclear bits, refcount_order, compression_type: all values; incompatible_features = 0, header_length = 112, backing_file_offset = 0 concrete
// @funcs Qcow2Header::from_buf Qcow2HeaderExtension::from (END arm) bincode deserialize of Qcow2RawHeader
// @stub alloc::fmt::format -> String::new()
header_fields!(c14_header_fields_v2, 2);

// @harness c14_header_fields_v1
// @props C14 C09
// @tier quick
// @cost 14
// @timeout 900
// @cbmc --max-field-sensitivity-array-size 256
// @desc Qcow2Header::from_buf on a 120-byte v2/v3 header (no backing name, END extension) whose numeric fields are ALL symbolic: never panics; Ok => version >= 2, 9 <= cluster_bits <= 21, both table offsets cluster aligned, crypt_method == 0 (encryption is unsupported and must be refused), refcount_order <= 6, a refcount table of 1..=8 MiB/cluster_size clusters (so the table buffer sized from the header is neither empty nor out of proportion); every spec-valid supported v3 header is accepted and the getters return the field values
// @bounds buffer 120 bytes; version 1 (concrete per instance); cluster_bits, size, crypt_method, l1_size, table offsets, refcount_table_clusters, snapshot fields, compatible/autoclear bits, refcount_order, compression_type: all values; incompatible_features = 0, header_length = 112, backing_file_offset = 0 concrete
// @funcs Qcow2Header::from_buf Qcow2HeaderExtension::from (END arm) bincode deserialize of Qcow2RawHeader
// @stub alloc::fmt::format -> String::new()
header_fields!(c14_header_fields_v1, 1);

// @harness c14_header_fields_v4
// @props C14 C09
// @tier quick
// @cost 45
// @timeout 900
// @cbmc --max-field-sensitivity-array-size 256
// @desc Qcow2Header::from_buf on a 120-byte v2/v3 header (no backing name, END extension) whose numeric fields are ALL symbolic: never panics; Ok => version >= 2, 9 <= cluster_bits <= 21, both table offsets cluster aligned, crypt_method == 0 (encryption is unsupported and must be refused), refcount_order <= 6, a refcount table of 1..=8 MiB/cluster_size clusters (so the table buffer sized from the header is neither empty nor out of proportion); every spec-valid supported v3 header is accepted and the getters return the field values
// @bounds buffer 120 bytes; version 4 (concrete per instance); cluster_bits, size, crypt_method, l1_size, table offsets, refcount_table_clusters, snapshot fields, compatible/autoclear bits, refcount_order, compression_type: all values; incompatible_features = 0, header_length = 112, backing_file_offset = 0 concrete
// @funcs Qcow2Header::from_buf Qcow2HeaderExtension::from (END arm) bincode deserialize of Qcow2RawHeader
// @stub alloc::fmt::format -> String::new()
header_fields!(c14_header_fields_v4, 4);

// @harness c14_header_short
// @props C14
// @tier quick
// @cost 10
// @timeout 600
// @desc Qcow2Header::from_buf on ANY byte string shorter than the fixed header (0..=104 bytes): returns Err, never panics
// @bounds length 0..=104 symbolic, content arbitrary
// @funcs Qcow2Header::from_buf
// @stub alloc::fmt::format -> String::new()
#[kani::proof]
#[kani::unwind(4)]
#[kani::stub(alloc::fmt::format, fmt_stub)]
fn c14_header_short() {
    let buf: [u8; 104] = kani::any();
    let n: usize = kani::any();
    kani::assume(n <= 104);
    let r = Qcow2Header::from_buf(&buf[..n]);
    assert!(r.is_err());
    kani::cover!(n == 0);
    kani::cover!(n == 104);
    core::mem::forget(r);
}

macro_rules! ext_parse {
    ($name:ident, $ty:expr, $len:expr) => {
        #[kani::proof]
        #[kani::unwind(8)]
        #[kani::stub(alloc::fmt::format, fmt_stub)]
        #[kani::stub(std::collections::HashMap::insert, hm_insert_stub)]
        #[kani::stub(std::hash::RandomState::new, rs_new_stub)]
        #[kani::stub(alloc::string::String::from_utf8_lossy, lossy_stub)]
        fn $name() {
            let content: [u8; $len] = kani::any();
            let data = content.to_vec();
            let ty: u32 = $ty;
            let r = Qcow2HeaderExtension::from(ty, data);
            // never panics; END terminates, everything else yields an extension or an error
            match &r {
                Ok(None) => assert!(ty == 0),
                Ok(Some(e)) => {
                    assert!(ty != 0);
                    assert!(e.extension_type() == ty);
                    if let Qcow2HeaderExtension::Unknown { extension_type, data } = e {
                        assert!(*extension_type == ty && data.len() == $len);
                    }
                }
                Err(_) => assert!(ty == 0xe2792aca),
            }
            kani::cover!(r.is_ok());
            core::mem::forget(r);
        }
    };
}

// @harness c14_ext_feature_table_1
// @props C14
// @tier quick
// @cost 2
// @timeout 600
// @desc private Qcow2HeaderExtension::from on a feature-name-table extension whose data length is 1 (a truncated entry): never panics
// @bounds data length 1 (concrete), content arbitrary
// @funcs Qcow2HeaderExtension::from (FeatureNameTable arm)
// @stub alloc::fmt::format -> String::new()
// @stub HashMap::insert -> no-op (map content is not observed)
// @stub RandomState::new -> fixed keys
// @stub String::from_utf8_lossy -> ""
ext_parse!(c14_ext_feature_table_1, 0x6803f857, 1);

// @harness c14_ext_feature_table_3
// @props C14
// @tier quick
// @cost 6
// @timeout 600
// @desc feature-name-table extension with a 3-byte (short but >= 2) entry: never panics
// @bounds data length 3 (concrete), content arbitrary
// @funcs Qcow2HeaderExtension::from (FeatureNameTable arm)
// @stub alloc::fmt::format -> String::new()
// @stub HashMap::insert -> no-op (map content is not observed)
// @stub RandomState::new -> fixed keys
// @stub String::from_utf8_lossy -> ""
ext_parse!(c14_ext_feature_table_3, 0x6803f857, 3);

// @harness c14_ext_feature_table_49
// @props C14
// @tier quick
// @cost 6
// @timeout 900
// @desc feature-name-table extension with one full 48-byte entry followed by a 1-byte remainder: never panics
// @bounds data length 49 (concrete), content arbitrary
// @funcs Qcow2HeaderExtension::from (FeatureNameTable arm)
// @stub alloc::fmt::format -> String::new()
// @stub HashMap::insert -> no-op (map content is not observed)
// @stub RandomState::new -> fixed keys
// @stub String::from_utf8_lossy -> ""
ext_parse!(c14_ext_feature_table_49, 0x6803f857, 49);

// @harness c14_ext_unknown_9
// @props C14 C15
// @tier quick
// @cost 23
// @timeout 600
// @desc an extension of unknown type with 9 data bytes is kept verbatim (type and data length)
// @bounds data length 9 (concrete), content arbitrary; type 0x12345678
// @funcs Qcow2HeaderExtension::from (Unknown arm)
// @stub alloc::fmt::format -> String::new()
ext_parse!(c14_ext_unknown_9, 0x12345678, 9);

// @harness c14_ext_end_8
// @props C14
// @tier quick
// @cost 2
// @timeout 600
// @desc the END extension terminates the walk whatever its data
// @bounds data length 8, content arbitrary
// @funcs Qcow2HeaderExtension::from (End arm)
// @stub alloc::fmt::format -> String::new()
ext_parse!(c14_ext_end_8, 0, 8);

// @harness c14_ext_backing_format_4
// @props C14
// @tier quick
// @cost 9
// @timeout 900
// @desc backing-file-format extension with 4 arbitrary bytes: Ok for valid UTF-8, Err otherwise, never panics
// @bounds data length 4 (concrete), content arbitrary
// @funcs Qcow2HeaderExtension::from (BackingFileFormat arm)
// @stub alloc::fmt::format -> String::new()
ext_parse!(c14_ext_backing_format_4, 0xe2792aca, 4);

// @harness c14_ext_feature_table_2
// @props C14
// @tier quick
// @timeout 900
// @desc private Qcow2HeaderExtension::from: feature-name table with a 2-byte entry (type and bit, empty name): never panics
// @bounds data length 2 (concrete), content arbitrary
// @funcs Qcow2HeaderExtension::from
// @stub alloc::fmt::format -> String::new()
// @stub HashMap::insert -> no-op (map content is not observed)
// @stub RandomState::new -> fixed keys
// @stub String::from_utf8_lossy -> ""
ext_parse!(c14_ext_feature_table_2, 0x6803f857, 2);

// @harness c14_ext_feature_table_48
// @props C14
// @tier quick
// @timeout 900
// @desc private Qcow2HeaderExtension::from: feature-name table with exactly one full entry: never panics
// @bounds data length 48 (concrete), content arbitrary
// @funcs Qcow2HeaderExtension::from
// @stub alloc::fmt::format -> String::new()
// @stub HashMap::insert -> no-op (map content is not observed)
// @stub RandomState::new -> fixed keys
// @stub String::from_utf8_lossy -> ""
ext_parse!(c14_ext_feature_table_48, 0x6803f857, 48);

// @harness c14_ext_feature_table_50
// @props C14
// @tier quick
// @timeout 900
// @desc private Qcow2HeaderExtension::from: feature-name table with one full entry and a 2-byte remainder: never panics
// @bounds data length 50 (concrete), content arbitrary
// @funcs Qcow2HeaderExtension::from
// @stub alloc::fmt::format -> String::new()
// @stub HashMap::insert -> no-op (map content is not observed)
// @stub RandomState::new -> fixed keys
// @stub String::from_utf8_lossy -> ""
ext_parse!(c14_ext_feature_table_50, 0x6803f857, 50);

// @harness c14_ext_feature_table_97
// @props C14
// @tier quick
// @timeout 900
// @desc private Qcow2HeaderExtension::from: feature-name table with two full entries and a 1-byte remainder: never panics
// @bounds data length 97 (concrete), content arbitrary
// @funcs Qcow2HeaderExtension::from
// @stub alloc::fmt::format -> String::new()
// @stub HashMap::insert -> no-op (map content is not observed)
// @stub RandomState::new -> fixed keys
// @stub String::from_utf8_lossy -> ""
ext_parse!(c14_ext_feature_table_97, 0x6803f857, 97);

// @harness c14_ext_unknown_0
// @props C14
// @tier quick
// @timeout 900
// @desc private Qcow2HeaderExtension::from: unknown extension without data: never panics
// @bounds data length 0 (concrete), content arbitrary
// @funcs Qcow2HeaderExtension::from
// @stub alloc::fmt::format -> String::new()
ext_parse!(c14_ext_unknown_0, 0x12345678, 0);

// @harness c14_ext_backing_format_1
// @props C14
// @tier quick
// @timeout 900
// @desc private Qcow2HeaderExtension::from: backing-format extension with one arbitrary byte: never panics
// @bounds data length 1 (concrete), content arbitrary
// @funcs Qcow2HeaderExtension::from
// @stub alloc::fmt::format -> String::new()
ext_parse!(c14_ext_backing_format_1, 0xe2792aca, 1);

// @harness c15_header_serialize
// @props C15 C16
// @tier quick
// @cost 52
// @timeout 1200
// @cbmc --max-field-sensitivity-array-size 256
// @desc a header with arbitrary numeric fields and no extensions is serialised by serialize_to_buf to exactly 120 bytes (112-byte header, a multiple of 8, plus the END extension) and EVERY byte equals the specification's layout (big-endian fields at the spec's offsets, header_length 112, zero padding, END marker) -- the same layout whose parsing c14_header_fields decides, so parse(serialize(h)) == h follows for these headers
// @bounds cluster_bits 9..=21, refcount_order 0..=6, size, l1_size, table offsets (aligned), refcount_table_clusters (1..=8 MiB), snapshot fields, compatible/autoclear bits: symbolic; no extensions, no backing name
// @funcs Qcow2Header::serialize_to_buf Qcow2RawHeader::serialize_vec Qcow2Header::serialize_extensions
// @stub alloc::fmt::format -> String::new()
#[kani::proof]
#[kani::unwind(10)]
#[kani::stub(alloc::fmt::format, fmt_stub)]
fn c15_header_serialize() {
    let f = any_fields();
    kani::assume(f.cluster_bits >= 9 && f.cluster_bits <= 21 && f.refcount_order <= 6);
    let cs = 1u64 << f.cluster_bits;
    kani::assume(f.l1_table_offset & (cs - 1) == 0 && f.refcount_table_offset & (cs - 1) == 0);
    kani::assume(f.refcount_table_clusters >= 1 && (f.refcount_table_clusters as u64) << f.cluster_bits <= 8 << 20);
    let mut h = Qcow2Header {
        raw: Qcow2RawHeader {
            magic: Qcow2Header::QCOW2_MAGIC,
            version: 3,
            backing_file_offset: 0,
            backing_file_size: 0,
            cluster_bits: f.cluster_bits,
            size: f.size,
            crypt_method: 0,
            l1_size: f.l1_size,
            l1_table_offset: f.l1_table_offset,
            refcount_table_offset: f.refcount_table_offset,
            refcount_table_clusters: f.refcount_table_clusters,
            nb_snapshots: f.nb_snapshots,
            snapshots_offset: f.snapshots_offset,
            incompatible_features: 0,
            compatible_features: f.compatible,
            autoclear_features: f.autoclear,
            refcount_order: f.refcount_order,
            header_length: 0,
            compression_type: 0,
        },
        backing_filename: None,
        extensions: Vec::new(),
    };
    let out = h.serialize_to_buf();
    assert!(out.is_ok());
    if let Ok(bytes) = &out {
        assert!(bytes.len() == 120);
        // the specification's layout, built independently
        let mut g = any_fields();
        g.version = 3;
        g.cluster_bits = f.cluster_bits;
        g.size = f.size;
        g.crypt_method = 0;
        g.l1_size = f.l1_size;
        g.l1_table_offset = f.l1_table_offset;
        g.refcount_table_offset = f.refcount_table_offset;
        g.refcount_table_clusters = f.refcount_table_clusters;
        g.nb_snapshots = f.nb_snapshots;
        g.snapshots_offset = f.snapshots_offset;
        g.compatible = f.compatible;
        g.autoclear = f.autoclear;
        g.refcount_order = f.refcount_order;
        g.compression_type = 0;
        let mut expect = [0u8; 120];
        emit(&mut expect, &g);
        let i: usize = kani::any();
        kani::assume(i < 120);
        assert!(bytes[i] == expect[i]);
        kani::cover!(i == 119);
        kani::cover!(i == 24);
    }
    core::mem::forget(out);
    core::mem::forget(h);
}

// @harness c15_header_serialize_backing
// @props C15 C16
// @tier quick
// @cost 120
// @timeout 1200
// @cbmc --max-field-sensitivity-array-size 256
// @desc a header that carries a backing file name and was parsed with ANY header_length (104-byte headers of older qemu, 72 for version 2, 112) is serialised to: the 112-byte header, the END extension, then the name; backing_file_offset points exactly at the name (120), backing_file_size is its length, header_length is rewritten to 112 -- so the re-parsed name is the same name
// @bounds parsed header_length: any u32; backing file name of 2 bytes; no other extension; numeric fields concrete
// @funcs Qcow2Header::serialize_to_buf Qcow2RawHeader::serialize_vec Qcow2Header::serialize_extensions
// @stub alloc::fmt::format -> String::new()
#[kani::proof]
#[kani::unwind(10)]
#[kani::stub(alloc::fmt::format, fmt_stub)]
fn c15_header_serialize_backing() {
    let parsed_len: u32 = kani::any();
    let mut h = mk_header(16, 4, 1 << 30, 2, 1, false);
    h.raw.header_length = parsed_len;
    h.backing_filename = Some(String::from("ab"));
    let out = h.serialize_to_buf();
    assert!(out.is_ok());
    if let Ok(bytes) = &out {
        assert!(bytes.len() == 122);
        let be32 = |at: usize| u32::from_be_bytes([bytes[at], bytes[at + 1], bytes[at + 2], bytes[at + 3]]);
        // backing_file_offset (u64 at 8), backing_file_size (u32 at 16), header_length (u32 at 100)
        assert!(be32(8) == 0 && be32(12) == 120);
        assert!(be32(16) == 2);
        assert!(be32(100) == 112);
        // END extension at 112, name right behind it
        assert!(be32(112) == 0 && be32(116) == 0);
        assert!(bytes[120] == b'a' && bytes[121] == b'b');
        kani::cover!(parsed_len == 104);
        kani::cover!(parsed_len == 72);
    }
    core::mem::forget(out);
    core::mem::forget(h);
}

macro_rules! ext_walk {
    ($name:ident, $len:expr) => {
        #[kani::proof]
        #[kani::unwind(18)]
        #[kani::stub(alloc::fmt::format, fmt_stub)]
        fn $name() {
            let mut buf = [0u8; 136];
            let f = Fields {
                version: 3, cluster_bits: 16, size: 1 << 30, crypt_method: 0, l1_size: 2, l1_table_offset: 0x30000,
                refcount_table_offset: 0x10000, refcount_table_clusters: 1, nb_snapshots: 0, snapshots_offset: 0,
                incompatible: 0, compatible: 0, autoclear: 0, refcount_order: 4, header_length: HLEN as u32,
                compression_type: 0,
            };
            emit(&mut buf, &f);
            // concrete unknown type: a symbolic one would make the string / hash-map arms of the
            // extension parser reachable for the symbolic executor (assume does not prune them)
            let ty: u32 = 0x1234_5678;
            let len: u32 = $len;
            put32(&mut buf, 112, ty);
            put32(&mut buf, 116, len);
            // arbitrary extension data (what lies inside the buffer)
            let data: [u8; 16] = kani::any();
            let mut k = 0;
            while k < 16 {
                if (k as u32) < len {
                    buf[120 + k] = data[k];
                }
                k += 1;
            }
            let r = Qcow2Header::from_buf(&buf);
            // data occupies [120, 120+len); the next extension header needs 8 more bytes after padding
            let next = 120 + ((len as u64 + 7) & !7);
            let fits = 120 + (len as u64) <= 136 && next + 8 <= 136;
            match &r {
                Ok(h) => {
                    assert!(fits);
                    assert!(h.extensions.len() == 1);
                    if let Qcow2HeaderExtension::Unknown { extension_type, data } = &h.extensions[0] {
                        assert!(*extension_type == ty && data.len() == len as usize);
                    } else {
                        assert!(false);
                    }
                }
                Err(_) => assert!(!fits),
            }
            kani::cover!(r.is_ok() == fits);
            core::mem::forget(r);
        }
    };
}

// @harness c14_ext_walk_17
// @props C14
// @tier quick
// @cost 22
// @timeout 900
// @cbmc --max-field-sensitivity-array-size 256
// @desc same walk, extension data running one byte past the end of the buffer (but far inside the first cluster): refused with Err, no panic
// @bounds as c14_ext_walk_8 with length 17
// @funcs Qcow2Header::from_buf (extension walk)
// @stub alloc::fmt::format -> String::new()
ext_walk!(c14_ext_walk_17, 17);

// @harness c14_ext_walk_4096
// @props C14
// @tier quick
// @cost 19
// @timeout 900
// @cbmc --max-field-sensitivity-array-size 256
// @desc same walk, extension length 4096 (past the buffer, inside the cluster): refused with Err, no panic
// @bounds as c14_ext_walk_8 with length 4096
// @funcs Qcow2Header::from_buf (extension walk)
// @stub alloc::fmt::format -> String::new()
ext_walk!(c14_ext_walk_4096, 4096);

// @harness c14_ext_walk_max
// @props C14
// @tier quick
// @cost 20
// @timeout 900
// @cbmc --max-field-sensitivity-array-size 256
// @desc same walk, extension length 0xffffffff (past the first cluster): refused with Err, no overflow
// @bounds as c14_ext_walk_8 with length u32::MAX
// @funcs Qcow2Header::from_buf (extension walk)
// @stub alloc::fmt::format -> String::new()
ext_walk!(c14_ext_walk_max, u32::MAX);

// @harness c09_header_v2
// @props C09 C14
// @tier quick
// @cost 34
// @timeout 900
// @cbmc --max-field-sensitivity-array-size 256
// @desc a spec-valid VERSION 2 header (72 bytes, followed by the END extension, the rest of the sector zero or arbitrary) is accepted and gets the defaults the specification defines for version 2: refcount_order 4, header_length 72 (so the extension walk starts right behind the 72-byte header and finds no extension), no feature bits; the v2 numeric fields are returned unchanged
// @bounds buffer 120 bytes; cluster_bits 9..=21, size, l1_size, table offsets (aligned), refcount_table_clusters (1..=8 MiB), snapshot fields symbolic; bytes 80..100 and 104..120 arbitrary; bytes 72..80 (END extension) and 100..104 zero
// @funcs Qcow2Header::from_buf (version 2 handling, extension walk)
// @stub alloc::fmt::format -> String::new()
#[kani::proof]
#[kani::unwind(4)]
#[kani::stub(alloc::fmt::format, fmt_stub)]
fn c09_header_v2() {
    let mut f = any_fields();
    f.version = 2;
    f.crypt_method = 0;
    kani::assume(f.cluster_bits >= 9 && f.cluster_bits <= 21);
    let cs = 1u64 << f.cluster_bits;
    kani::assume(f.l1_table_offset & (cs - 1) == 0 && f.refcount_table_offset & (cs - 1) == 0);
    kani::assume(f.refcount_table_clusters >= 1 && (f.refcount_table_clusters as u64) << f.cluster_bits <= 8 << 20);
    let mut buf = [0u8; 120];
    emit(&mut buf, &f);
    // what follows the 72-byte v2 header: END extension, then bytes a v2 writer never defined
    put64(&mut buf, 72, 0);
    put32(&mut buf, 100, 0);
    let r = Qcow2Header::from_buf(&buf);
    assert!(r.is_ok());
    if let Ok(h) = &r {
        assert!(h.version() == 2);
        assert!(h.refcount_order() == 4);
        assert!(h.header_length() == 72);
        assert!(h.extensions.is_empty());
        assert!(h.compression_type() == 0);
        assert!(h.cluster_bits() == f.cluster_bits && h.size() == f.size);
        assert!(h.l1_table_offset() == f.l1_table_offset && h.reftable_offset() == f.refcount_table_offset);
        kani::cover!(f.compatible != 0, "garbage in the bytes a v3 header uses for feature bits");
    }
    core::mem::forget(r);
}

macro_rules! format_image {
    ($name:ident, $order:expr) => {
#[kani::proof]
#[kani::unwind(10)]
#[kani::stub(alloc::fmt::format, fmt_stub)]
fn $name() {
    let order: u8 = $order;
    let fill: u8 = kani::any();
    let mut buf = [fill; 2048];
    let size: u64 = 0x10_0200;
    let r = Qcow2Header::format_qcow2(&mut buf, size, 9, order, 512);
    assert!(r.is_ok());
    // independent reader
    let be32 = |b: &[u8; 2048], at: usize| u32::from_be_bytes([b[at], b[at + 1], b[at + 2], b[at + 3]]);
    let be64 = |b: &[u8; 2048], at: usize| ((be32(b, at) as u64) << 32) | be32(b, at + 4) as u64;
    assert!(be32(&buf, 0) == 0x514649fb && be32(&buf, 4) == 3);
    assert!(be64(&buf, 8) == 0 && be32(&buf, 20) == 9 && be64(&buf, 24) == size);
    assert!(be32(&buf, 32) == 0);
    // l1: ceil(size / (64 * 512)) = 33 entries, behind refcount table (cluster 1) and refcount block (cluster 2)
    assert!(be32(&buf, 36) == 33 && be64(&buf, 40) == 3 * 512);
    assert!(be64(&buf, 48) == 512 && be32(&buf, 56) == 1);
    assert!(be64(&buf, 72) == 0 && be32(&buf, 96) == order as u32 && be32(&buf, 100) == 112);
    // refcount table: entry 0 -> refcount block at cluster 2, the rest empty
    assert!(be64(&buf, 512) == 1024);
    let e: usize = kani::any();
    kani::assume(e >= 1 && e < 64);
    assert!(be64(&buf, 512 + 8 * e) == 0);
    // refcount block: clusters 0..=3 (header, reftable, refblock, L1) in use exactly once
    let mut rb = [0u8; 64];
    rb.copy_from_slice(&buf[1024..1088]);
    let c: usize = kani::any();
    kani::assume(c < 5);
    assert!(spec::rc_get(&rb, order as u32, c) == if c < 4 { 1 } else { 0 });
    let z: usize = kani::any();
    kani::assume(z >= 40 && z < 512);
    assert!(buf[1024 + z] == 0);
    // first L1 block zeroed
    let l: usize = kani::any();
    kani::assume(l < 512);
    assert!(buf[1536 + l] == 0);
    kani::cover!(true);
    core::mem::forget(r);
}
    };
}

// @harness c09_format_image_o4
// @props C09 C20
// @tier thorough
// @cost 1700
// @timeout 3400
// @cbmc --max-field-sensitivity-array-size 4096
// @desc the whole formatter Qcow2Header::format_qcow2 on a 2 KiB buffer with arbitrary previous content (512-byte clusters, 1 MiB + 512 B virtual disk, every refcount width): the bytes it produces are a valid image for an independent reader written from the spec: header fields, refcount table entry 0 -> the refcount block, every other refcount-table entry 0, refcount exactly 1 on the header, refcount-table, refcount-block and L1 clusters and 0 on every other cluster, first L1 block zero
// @bounds cluster_bits 9, block size 512, virtual size 0x100200 (concrete size class); refcount_order 4 (concrete per instance); buffer pre-filled with arbitrary bytes
// @funcs Qcow2Header::format_qcow2 Qcow2Header::calculate_meta_params RefBlock::increment RefTable::set Qcow2RawHeader::serialize_vec
// @stub alloc::fmt::format -> String::new()
format_image!(c09_format_image_o4, 4);

// @harness c09_format_image_o0
// @props C09 C20
// @tier thorough
// @cost 1700
// @timeout 3400
// @cbmc --max-field-sensitivity-array-size 4096
// @desc the whole formatter Qcow2Header::format_qcow2 on a 2 KiB buffer with arbitrary previous content (512-byte clusters, 1 MiB + 512 B virtual disk, every refcount width): the bytes it produces are a valid image for an independent reader written from the spec: header fields, refcount table entry 0 -> the refcount block, every other refcount-table entry 0, refcount exactly 1 on the header, refcount-table, refcount-block and L1 clusters and 0 on every other cluster, first L1 block zero
// @bounds cluster_bits 9, block size 512, virtual size 0x100200 (concrete size class); refcount_order 0 (concrete per instance); buffer pre-filled with arbitrary bytes
// @funcs Qcow2Header::format_qcow2 Qcow2Header::calculate_meta_params RefBlock::increment RefTable::set Qcow2RawHeader::serialize_vec
// @stub alloc::fmt::format -> String::new()
format_image!(c09_format_image_o0, 0);

// @harness c09_format_image_o6
// @props C09 C20
// @tier thorough
// @cost 1700
// @timeout 3400
// @cbmc --max-field-sensitivity-array-size 4096
// @desc the whole formatter Qcow2Header::format_qcow2 on a 2 KiB buffer with arbitrary previous content (512-byte clusters, 1 MiB + 512 B virtual disk, every refcount width): the bytes it produces are a valid image for an independent reader written from the spec: header fields, refcount table entry 0 -> the refcount block, every other refcount-table entry 0, refcount exactly 1 on the header, refcount-table, refcount-block and L1 clusters and 0 on every other cluster, first L1 block zero
// @bounds cluster_bits 9, block size 512, virtual size 0x100200 (concrete size class); refcount_order 6 (concrete per instance); buffer pre-filled with arbitrary bytes
// @funcs Qcow2Header::format_qcow2 Qcow2Header::calculate_meta_params RefBlock::increment RefTable::set Qcow2RawHeader::serialize_vec
// @stub alloc::fmt::format -> String::new()
format_image!(c09_format_image_o6, 6);

