// Harnesses over segments lifted from src/dev/discard.rs; child of `crate::dev`.
// @module-needs env header seg:D0 seg:D1 seg:DF
#![allow(dead_code, unused_imports)]
use super::*;
use crate::dev::verif_env::*;
use crate::meta::verif_header::{any_geo, info_of, Geo};
use crate::meta::{L1Entry, L2Entry, L2Table, MappingSource, SplitGuestOffset, Table};
use crate::verif_spec as spec;

fn fmt_stub2(_a: core::fmt::Arguments<'_>) -> String {
    String::new()
}

// @harness c11_discard_range
// @props C11 C13 C10
// @tier quick
// @cost 13
// @timeout 900
// @needs D0
// @desc the whole range computation of discard() (everything before the per-cluster loop, lifted verbatim) for ALL (offset, len): on a writable device it never fails and never overflows; it returns early exactly when no whole cluster lies inside [offset, min(offset+len, vsize)), otherwise the loop bounds are exactly the inward rounding (smallest cluster boundary >= offset, largest <= the clipped end); on a read-only device (incl. every backing device) it returns Err
// @bounds offset, len: all u64; virtual size: all u64 <= 2^63; full symbolic geometry; read-only flag symbolic
// @funcs Qcow2Dev::discard (prologue) Qcow2Info::{cluster_round_up,cluster_round_down,virtual_size}
// @stub alloc::fmt::format -> String::new()
// @assume virtual size <= 2^63
#[kani::proof]
#[kani::stub(std::fmt::format, fmt_stub2)]
fn c11_discard_range() {
    let g = any_geo();
    let vsize: u64 = kani::any();
    kani::assume(vsize <= 1u64 << 63);
    let ro: bool = kani::any();
    let env = KEnv::new(info_of(&g, vsize, ro, false, false));
    let offset: u64 = kani::any();
    let len: u64 = kani::any();
    let r = env.seg_d0(offset, len);
    let cs = 1u64 << g.cb;
    if ro {
        assert!(r.is_err() && !env.passed.get());
    } else {
        assert!(r.is_ok());
        // independent statement of "whole clusters inside the clipped range"
        let end = core::cmp::min(offset.saturating_add(len), vsize);
        let first = (offset >> g.cb) + (offset & (cs - 1) != 0) as u64; // first whole cluster index
        let last_excl = end >> g.cb; // clusters [first, last_excl) are fully inside
        let any_whole = offset < end && first < last_excl;
        assert!(env.passed.get() == any_whole);
        if any_whole {
            let o = env.out.get();
            assert!(o[0] == first << g.cb && o[1] == last_excl << g.cb);
            assert!(o[2] == o[0] && o[3] == cs);
            kani::cover!(offset & (cs - 1) != 0 && end & (cs - 1) != 0, "partial head and tail");
            kani::cover!(offset.checked_add(len).is_none(), "offset + len overflows");
            kani::cover!(end == vsize && vsize & (cs - 1) != 0, "clipped at an unaligned virtual size");
        }
        kani::cover!(!any_whole && len > 0 && offset < vsize, "sub-cluster range is a no-op");
    }
    kani::cover!(ro);
    core::mem::forget(r);
    core::mem::forget(env);
}

// @harness c11_discard_one_cluster
// @props C11 C03 C18 C16 C08
// @tier quick
// @cost 50
// @timeout 1200
// @needs D1
// @desc the whole body of __discard_one_cluster (awaited lookups and releases shimmed) on an L2 slice with arbitrary content, with and without backing file: compressed, unallocated and zero-without-allocation entries stay bit-identical and nothing is released; otherwise the new entry, decoded by the real into_mapping, READS AS ZEROS (Zero, or Unallocated only without backing file -- never Backing), every other entry is untouched, the clusters released are exactly the old allocation (once), the punch covers exactly those clusters (cluster aligned), and the slice is marked dirty and need_flush is set
// @bounds L2 slice: the real slice size for block-size slices (64 entries at 512 B) with arbitrary content in the 8-entry window around the addressed entry; guest offset: any cluster-aligned offset < 2^56; full symbolic cluster/refcount geometry; has-backing symbolic
// @funcs Qcow2Dev::__discard_one_cluster (whole body) L2Table::get_entry L2Entry::allocation L2Entry::into_mapping Table::set
// @stub alloc::fmt::format -> String::new()
// @assume standard L2 entries of the pre-state are cluster aligned (format invariant)
#[kani::proof]
#[kani::unwind(10)]
#[kani::stub(std::fmt::format, fmt_stub2)]
fn c11_discard_one_cluster() {
    let g = any_geo();
    // slice = one 512-byte block (64 entries): keeps the allocation size concrete
    kani::assume(g.bs == 9 && g.l2sb == 9);
    let has_back: bool = kani::any();
    let mut env = KEnv::new(info_of(&g, 1u64 << 62, false, false, has_back));
    let nf0: bool = kani::any();
    env.mark_need_flush(nf0);
    let guest: u64 = kani::any();
    let cs = 1u64 << g.cb;
    kani::assume(guest & (cs - 1) == 0 && guest < (1u64 << 56));
    let idx = ((guest >> g.cb) & 63) as usize;
    // arbitrary content in the 8-entry window that contains idx
    let base = idx & !7;
    let mut t = L2Table::new(Some(0x10000), 512, g.cb as usize);
    let before: [u64; 8] = kani::any();
    let mut i = 0;
    while i < 8 {
        t.set(base + i, L2Entry(before[i]));
        i += 1;
    }
    let l1: u64 = kani::any();
    env.l1_entry = unsafe { core::mem::transmute::<u64, L1Entry>(l1) };
    env.l2_slice = Some(KHandle::new(t));
    let old = before[idx - base];
    kani::assume(old & spec::COMPRESSED != 0 || (old & spec::STD_OFFSET_MASK) & (cs - 1) == 0);
    let r = env.seg_d1(guest);
    assert!(r.is_ok());
    let h = env.l2_slice.as_ref().unwrap();
    let tbl = h.value().kwrite();
    let l1_zero = l1 & spec::L1_OFFSET_MASK == 0;
    let d = spec::decode_l2(old, g.cb);
    let (a_first, a_cnt) = spec::l2_allocation(old, g.cb);
    let owns = !l1_zero && d.kind != spec::Kind::Compressed && a_cnt != 0;
    let mut k = 0;
    while k < 8 {
        if base + k != idx || !owns {
            assert!(tbl.get(base + k).0 == before[k]);
        }
        k += 1;
    }
    if !owns {
        assert!(env.nrec.get() == 0 && !h.is_dirty() && env.need_flush_meta() == nf0);
        kani::cover!(d.kind == spec::Kind::Compressed && !l1_zero);
        kani::cover!(d.kind == spec::Kind::Unallocated && !l1_zero);
        kani::cover!(d.kind == spec::Kind::Zero && !l1_zero, "zero flag without preallocation");
        kani::cover!(l1_zero);
    } else {
        let new = tbl.get(idx);
        let m = new.into_mapping(&env.info, &SplitGuestOffset(guest));
        // reads as zeros, never from the backing chain
        let reads_zero = m.source == MappingSource::Zero || (m.source == MappingSource::Unallocated && !has_back);
        assert!(reads_zero);
        // the old cluster is no longer referenced by the new entry
        assert!(spec::l2_allocation(new.0, g.cb).1 == 0);
        assert!(h.is_dirty() && env.need_flush_meta());
        // released exactly once, punched exactly once, release before punch
        assert!(env.count(K_FREE) == 1 && env.count(K_FALLOC) == 1);
        assert!(env.first(K_FREE) < env.first(K_FALLOC));
        let f = env.get_rec(env.first(K_FREE));
        assert!(f.off == a_first && f.len as u64 == a_cnt);
        let p = env.get_rec(env.first(K_FALLOC));
        assert!(p.off == a_first && p.len as u64 == a_cnt << g.cb);
        assert!(p.off & (cs - 1) == 0 && p.len > 0);
        kani::cover!(has_back && d.kind == spec::Kind::Data);
        kani::cover!(!has_back && d.kind == spec::Kind::Data);
        kani::cover!(d.kind == spec::Kind::Zero, "zero cluster with preallocation");
    }
    drop(tbl);
    core::mem::forget(r);
    core::mem::forget(env);
}

// @harness c11_discard_loop
// @props C11 C13
// @tier quick
// @cost 45
// @timeout 900
// @needs DF
// @desc the whole body of discard() with the per-cluster step shimmed: the step is invoked exactly once for every whole cluster inside [offset, min(offset+len, vsize)), in ascending order, with cluster-aligned guest offsets, and for nothing else (partially covered head / tail clusters and everything outside the range are never touched); Ok on a writable device, Err and no step on a read-only one
// @bounds offset, len: all u64 such that at most 5 whole clusters are covered; virtual size <= 2^63; full symbolic geometry; read-only flag symbolic
// @funcs Qcow2Dev::discard (whole body)
// @stub alloc::fmt::format -> String::new()
// @assume virtual size <= 2^63
#[kani::proof]
#[kani::unwind(8)]
#[kani::stub(std::fmt::format, fmt_stub2)]
fn c11_discard_loop() {
    let g = any_geo();
    let vsize: u64 = kani::any();
    kani::assume(vsize <= 1u64 << 63);
    let ro: bool = kani::any();
    let env = KEnv::new(info_of(&g, vsize, ro, false, false));
    let offset: u64 = kani::any();
    let len: u64 = kani::any();
    let cs = 1u64 << g.cb;
    let end = core::cmp::min(offset.saturating_add(len), vsize);
    let first = (offset >> g.cb) + (offset & (cs - 1) != 0) as u64;
    let last_excl = end >> g.cb;
    let n = if offset < end && first < last_excl { last_excl - first } else { 0 };
    kani::assume(n <= 5);
    let r = env.seg_df(offset, len);
    if ro {
        assert!(r.is_err() && env.nrec.get() == 0);
    } else {
        assert!(r.is_ok());
        assert!(env.nrec.get() as u64 == n);
        let mut k = 0;
        while k < 5 {
            if (k as u64) < n {
                let e = env.get_rec(k);
                assert!(e.kind == K_DISCARD1 && e.off == (first + k as u64) << g.cb);
            }
            k += 1;
        }
        kani::cover!(n == 5);
        kani::cover!(n == 0 && len > cs);
    }
    kani::cover!(ro);
    core::mem::forget(r);
    core::mem::forget(env);
}
