// Harness module injected as a child of `crate::meta::l2`.
// @module-needs header
#![allow(dead_code, unused_imports)]
use super::*;
use crate::meta::verif_header::{any_geo, fmt_stub, info_of, mk_info};
use crate::verif_spec as spec;

fn any_cb() -> u32 {
    let cb: u32 = kani::any();
    kani::assume(cb >= spec::MIN_CLUSTER_BITS && cb <= spec::MAX_CLUSTER_BITS);
    cb
}

// @harness c15_l2_compressed_range
// @props C15 C09 C14
// @tier quick
// @cost 4
// @timeout 300
// @desc L2Entry::compressed_range and L2Entry::allocation equal the spec's compressed-descriptor formulas (host offset, byte length up to the end of the last sector, set of host clusters touched incl. straddling) for EVERY 64-bit entry and every cluster size; no overflow or panic on any bit pattern
// @bounds raw: all u64; cluster_bits: 9..=21 symbolic
// @funcs L2Entry::compressed_range L2Entry::allocation L2Entry::compressed_descriptor L2Entry::cluster_offset
// @stub alloc::fmt::format -> String::new()
#[kani::proof]
#[kani::stub(alloc::fmt::format, fmt_stub)]
fn c15_l2_compressed_range() {
    let raw: u64 = kani::any();
    let cb = any_cb();
    let e = L2Entry(raw);
    let d = spec::decode_l2(raw, cb);
    match e.compressed_range(cb) {
        Some((off, len)) => {
            assert!(d.kind == spec::Kind::Compressed);
            assert!(off == d.host);
            assert!(len as u64 == d.comp_len);
            assert!(len >= 1);
            kani::cover!(len as u64 > spec::cluster_size(cb), "descriptor longer than a cluster");
        }
        None => assert!(d.kind != spec::Kind::Compressed),
    }
    let (s_first, s_cnt) = spec::l2_allocation(raw, cb);
    match e.allocation(cb) {
        Some((first, cnt)) => {
            assert!(s_cnt != 0);
            assert!(first == s_first);
            assert!(cnt as u64 == s_cnt);
            kani::cover!(d.kind == spec::Kind::Compressed && cnt == 2, "compressed cluster straddles two host clusters");
            kani::cover!(d.kind == spec::Kind::Compressed && cnt == 3, "compressed descriptor touching three host clusters");
            kani::cover!(d.kind == spec::Kind::Data);
        }
        None => assert!(s_cnt == 0),
    }
}

// @harness c15_l2_decode
// @props C15 C01 C09 C14 C11
// @tier quick
// @cost 14
// @timeout 300
// @desc L2Entry::into_mapping on the geometry the real Qcow2Info::new derives: for every spec-valid entry the cluster kind, host offset, compressed length and COPIED flag equal the spec model; an unallocated entry is Backing (pointing at the guest cluster offset itself) iff the image has a backing file; never panics on ANY 64-bit entry
// @bounds raw: all u64; guest offset: all u64; cluster_bits 9..=21, refcount_order 0..=6, block/slice bits symbolic; has-backing symbolic
// @funcs L2Entry::into_mapping L2Entry::compressed_range SplitGuestOffset::cluster_offset SplitGuestOffset::l1_index SplitGuestOffset::l2_index Qcow2Info::new
// @stub alloc::fmt::format -> String::new()
#[kani::proof]
#[kani::stub(alloc::fmt::format, fmt_stub)]
fn c15_l2_decode() {
    let g = any_geo();
    let has_back: bool = kani::any();
    let info = info_of(&g, kani::any(), false, false, has_back);
    let raw: u64 = kani::any();
    let guest: u64 = kani::any();
    let m = L2Entry(raw).into_mapping(&info, &SplitGuestOffset(guest));
    if spec::l2_valid(raw, g.cb) {
        let d = spec::decode_l2(raw, g.cb);
        match d.kind {
            spec::Kind::Compressed => {
                assert!(m.source == MappingSource::Compressed);
                assert!(m.cluster_offset == Some(d.host));
                assert!(m.compressed_length == Some(d.comp_len as usize));
                assert!(!m.copied);
            }
            spec::Kind::Zero => {
                assert!(m.source == MappingSource::Zero);
                assert!(m.cluster_offset == if d.host != 0 { Some(d.host) } else { None });
                assert!(m.compressed_length.is_none());
                assert!(m.copied == d.copied);
            }
            spec::Kind::Unallocated => {
                if has_back {
                    assert!(m.source == MappingSource::Backing);
                    assert!(m.cluster_offset == Some(guest & !(spec::cluster_size(g.cb) - 1)));
                } else {
                    assert!(m.source == MappingSource::Unallocated);
                }
                assert!(!m.copied && m.compressed_length.is_none());
            }
            spec::Kind::Data => {
                assert!(m.source == MappingSource::DataFile);
                assert!(m.cluster_offset == Some(d.host));
                assert!(m.copied == d.copied);
                assert!(m.compressed_length.is_none());
            }
        }
        kani::cover!(d.kind == spec::Kind::Compressed);
        kani::cover!(d.kind == spec::Kind::Zero && d.host != 0);
        kani::cover!(d.kind == spec::Kind::Zero && d.host == 0);
        kani::cover!(d.kind == spec::Kind::Unallocated && has_back);
        kani::cover!(d.kind == spec::Kind::Unallocated && !has_back);
        kani::cover!(d.kind == spec::Kind::Data && d.copied);
        kani::cover!(d.kind == spec::Kind::Data && !d.copied);
    }
    // what reads as zeros / never from the backing chain (used by C11): a zero-flagged entry is
    // Zero whatever the backing state
    if raw & (spec::COMPRESSED | spec::ZERO_FLAG) == spec::ZERO_FLAG {
        assert!(m.source == MappingSource::Zero);
    }
    kani::cover!(!spec::l2_valid(raw, g.cb), "malformed entries are exercised too");
    core::mem::forget(info);
}

// @harness c15_l2_roundtrip
// @props C15
// @tier quick
// @cost 13
// @timeout 300
// @desc for every L2 entry value the specification permits, L2Entry::from_mapping(into_mapping(e)) == e bit for bit, and neither direction panics (incl. the debug assertions and the assert on the compressed length)
// @bounds raw: all spec-valid u64; cluster_bits 9..=21; has-backing symbolic; guest offset < 2^56
// @assume guest offset < 2^56 (format limit of the L1/L2 layout)
// @funcs L2Entry::from_mapping L2Entry::into_mapping L2Entry::reserved_bits
// @stub alloc::fmt::format -> String::new()
#[kani::proof]
#[kani::stub(alloc::fmt::format, fmt_stub)]
fn c15_l2_roundtrip() {
    let g = any_geo();
    let has_back: bool = kani::any();
    let info = info_of(&g, kani::any(), false, false, has_back);
    let raw: u64 = kani::any();
    kani::assume(spec::l2_valid(raw, g.cb));
    let guest: u64 = kani::any();
    // guest offsets are limited to 56 bits by the L1/L2 layout (spec, "Virtual disk size")
    kani::assume(guest >> 56 == 0);
    let m = L2Entry(raw).into_mapping(&info, &SplitGuestOffset(guest));
    let back = L2Entry::from_mapping(m, g.cb);
    assert!(back.0 == raw);
    let d = spec::decode_l2(raw, g.cb);
    kani::cover!(d.kind == spec::Kind::Compressed && d.comp_len >= spec::cluster_size(g.cb),
        "compressed descriptor whose byte span reaches a full cluster");
    kani::cover!(d.kind == spec::Kind::Compressed && d.comp_len < 512);
    kani::cover!(d.kind == spec::Kind::Zero && d.copied);
    kani::cover!(d.kind == spec::Kind::Data);
    kani::cover!(d.kind == spec::Kind::Unallocated);
    core::mem::forget(info);
}

// @harness c14_l2_validator
// @props C14 C15
// @tier quick
// @cost 9
// @timeout 300
// @desc L2Entry::try_from_plain: every spec-valid entry is accepted, every accepted standard entry has its reserved bits clear and a cluster-aligned host offset, into_plain returns the same bits
// @bounds raw: all u64; geometry symbolic
// @funcs L2Entry::try_from_plain L2Entry::reserved_bits Qcow2Info::in_cluster_offset
// @stub alloc::fmt::format -> String::new()
#[kani::proof]
#[kani::stub(alloc::fmt::format, fmt_stub)]
fn c14_l2_validator() {
    let g = any_geo();
    let info = info_of(&g, kani::any(), false, false, false);
    let raw: u64 = kani::any();
    let r = <L2Entry as TableEntry>::try_from_plain(raw, &info);
    match &r {
        Ok(e) => {
            assert!(e.into_plain() == raw);
            if raw & spec::COMPRESSED == 0 {
                assert!(raw & spec::STD_RESERVED == 0);
                assert!((raw & spec::STD_OFFSET_MASK) & (spec::cluster_size(g.cb) - 1) == 0);
            } else {
                assert!(raw & spec::COPIED == 0);
            }
        }
        Err(_) => assert!(!spec::l2_valid(raw, g.cb)),
    }
    kani::cover!(r.is_ok());
    kani::cover!(r.is_err());
    core::mem::forget(r);
    core::mem::forget(info);
}

// @harness c03_l2_map_cluster
// @props C03 C15 C01
// @tier quick
// @cost 8
// @timeout 300
// @desc L2Table::map_cluster on an 8-entry slice with arbitrary content: the addressed entry becomes exactly COPIED|host (reserved bits clear, zero flag clear, decodes to a writable data cluster at `host`), every other entry is untouched, entries are stored big-endian at byte 8*i
// @bounds slice: 8 entries, arbitrary content; index 0..8; host: any cluster-aligned offset < 2^56; cluster_bits 9..=21
// @funcs L2Table::map_cluster L2Entry::from_mapping Table::get Table::set L2Table::new
// @stub alloc::fmt::format -> String::new()
#[kani::proof]
#[kani::unwind(9)]
#[kani::stub(alloc::fmt::format, fmt_stub)]
fn c03_l2_map_cluster() {
    let cb = any_cb();
    let mut t = L2Table::new(None, 64, cb as usize);
    let before: [u64; 8] = kani::any();
    let mut i = 0;
    while i < 8 {
        t.set(i, L2Entry(before[i]));
        i += 1;
    }
    let idx: usize = kani::any();
    kani::assume(idx < 8);
    let host: u64 = kani::any();
    kani::assume(host != 0 && host & (spec::cluster_size(cb) - 1) == 0 && host >> 56 == 0);
    let _ = t.map_cluster(idx, host);
    let mut k = 0;
    while k < 8 {
        let v = t.get(k).0;
        if k == idx {
            assert!(v == spec::COPIED | host);
            assert!(spec::l2_valid(v, cb));
            let d = spec::decode_l2(v, cb);
            assert!(d.kind == spec::Kind::Data && d.copied && d.host == host);
        } else {
            assert!(v == before[k]);
        }
        k += 1;
    }
    // big-endian on disk
    let p = t.as_ptr();
    let want = (spec::COPIED | host).to_be_bytes();
    let mut b = 0;
    while b < 8 {
        assert!(unsafe { *p.add(idx * 8 + b) } == want[b]);
        b += 1;
    }
    kani::cover!(idx == 7);
    kani::cover!(before[idx] & spec::COMPRESSED != 0, "replaces a compressed entry");
}

// @harness c15_l2_table_be
// @props C15
// @tier quick
// @cost 12
// @timeout 300
// @desc Table::{get,set} of L2Table: set writes the big-endian bytes of the value at byte offset 8*i and nothing else, get reads them back, get beyond the table returns 0, entries() == bytes/8
// @bounds 8-entry table, arbitrary content, all indices, all values
// @funcs Table::get Table::set Table::entries L2Table::new Qcow2IoBuf
#[kani::proof]
#[kani::unwind(65)]
fn c15_l2_table_be() {
    let mut t = L2Table::new(None, 64, 16);
    assert!(t.entries() == 8);
    let init: [u8; 64] = kani::any();
    let p = t.as_mut_ptr();
    let mut k = 0;
    while k < 64 {
        unsafe { *p.add(k) = init[k] };
        k += 1;
    }
    let idx: usize = kani::any();
    let v: u64 = kani::any();
    if idx < 8 {
        t.set(idx, L2Entry(v));
        assert!(t.get(idx).0 == v);
        let want = v.to_be_bytes();
        let mut k = 0;
        while k < 64 {
            let got = unsafe { *t.as_ptr().add(k) };
            if k / 8 == idx {
                assert!(got == want[k % 8]);
            } else {
                assert!(got == init[k]);
            }
            k += 1;
        }
        kani::cover!(idx == 7 && v == u64::MAX);
    } else {
        assert!(t.get(idx).0 == 0);
        kani::cover!(idx == usize::MAX);
    }
}
