// Harnesses over the top-table flush arithmetic lifted from src/dev/cache.rs; child of `crate::dev`.
// @module-needs env header seg:K0 seg:K1 seg:K2 seg:FM
#![allow(dead_code, unused_imports)]
use super::*;
use crate::dev::verif_env::*;
use crate::meta::verif_header::{any_geo, info_of, Geo};
use crate::meta::{L1Table, RefTable, SplitGuestOffset, Table};
use crate::verif_spec as spec;

fn fmt_stub2(_a: core::fmt::Arguments<'_>) -> String {
    String::new()
}

impl KEnv {
    /// should flush_meta_generic ever delegate to flush_top_table: that is lifted code too (K1)
    pub(crate) fn k_flush_top_table<B: Table>(&self, rt: &B) -> Qcow2Result<()> {
        self.seg_k1(rt)
    }
}

// @harness c15_slice_key_of_top_offset
// @props C15 C16 C02 C04
// @tier quick
// @cost 69
// @timeout 900
// @needs K0
// @desc rb_slice_key_of_rt_off / l2_slice_key_of_l1_off (lifted verbatim) are the inverse of the slice-key functions: for the top-table entry at byte offset 8*i they return the key of the FIRST slice below entry i, and a slice belongs to entry i iff its key lies in [key_of(8*i), key_of(8*(i+1))) -- so the key window flush_meta_generic derives from a dirty top-table block contains exactly the slices whose parent entry lies in that block
// @bounds top-table index i: every index whose entry describes space below 2^56; any host / guest offset below 2^56; full symbolic geometry
// @assume host and guest offsets < 2^56 (limit of the L1/L2/refcount entry encodings)
// @funcs Qcow2Dev::rb_slice_key_of_rt_off Qcow2Dev::l2_slice_key_of_l1_off HostCluster::rb_slice_key SplitGuestOffset::l2_slice_key
// @stub alloc::fmt::format -> String::new()
#[kani::proof]
#[kani::stub(std::fmt::format, fmt_stub2)]
fn c15_slice_key_of_top_offset() {
    let g = any_geo();
    let env = KEnv::new(info_of(&g, 1u64 << 62, false, false, false));
    let i: u64 = kani::any();
    // entry i of either top table describes host / guest space below 2^56 (format limit of the
    // entry encodings), otherwise `idx << shift << cluster_bits` has no meaning
    kani::assume(i < (1 << 22));
    kani::assume(i + 1 <= (1u64 << 56) >> (spec::rb_bits(g.cb, g.order) + g.cb));
    kani::assume(i + 1 <= (1u64 << 56) >> (spec::l2_bits(g.cb) + g.cb));
    // refcount side
    let k_lo = env.seg_k0_rb(8 * i);
    let k_hi = env.seg_k0_rb(8 * (i + 1));
    let host: u64 = kani::any();
    kani::assume(host >> 56 == 0);
    let c = HostCluster(host);
    let in_entry = c.rt_index(&env.info) as u64 == i;
    let key = c.rb_slice_key(&env.info);
    assert!(in_entry == (key >= k_lo && key < k_hi));
    // byte offsets inside the 8-byte entry map to the same key
    let b: u64 = kani::any();
    kani::assume(b < 8);
    assert!(env.seg_k0_rb(8 * i + b) == k_lo);
    // mapping side
    let m_lo = env.seg_k0_l2(8 * i);
    let m_hi = env.seg_k0_l2(8 * (i + 1));
    let guest: u64 = kani::any();
    kani::assume(guest >> 56 == 0);
    let s = SplitGuestOffset(guest);
    let in_l1 = s.l1_index(&env.info) as u64 == i;
    let mk = s.l2_slice_key(&env.info);
    assert!(in_l1 == (mk >= m_lo && mk < m_hi));
    kani::cover!(in_entry && key > k_lo);
    kani::cover!(in_l1 && mk > m_lo);
    kani::cover!(!in_entry && !in_l1);
    core::mem::forget(env);
}

// @harness c16_top_table_flush
// @props C16 C15 C02 C04
// @tier quick
// @cost 48
// @timeout 1200
// @needs K1 K2
// @desc flush_top_table (whole body, awaited calls shimmed; flush_meta_generic is decided by c16_top_table_flush_generic) on a refcount table with up to 2 dirty entries: every write they issue for the top table starts at table_offset + (idx << block_bits), is exactly one block long, block aligned, lies inside the table and covers a dirtied entry; flush_meta_generic flushes the child slices of exactly that block's entries first, fsyncs iff something was flushed, and reports done only when no dirty block is left
// @bounds 512-byte and 1 KiB blocks symbolic; table of 2 KiB (256 entries); dirty entries: 2 arbitrary indices; table offset any cluster-aligned value
// @funcs Qcow2Dev::flush_top_table Qcow2Dev::flush_meta_generic Table::pop_dirty_blk_idx Table::set_dirty
// @stub alloc::fmt::format -> String::new()
#[kani::proof]
#[kani::unwind(5)]
#[kani::stub(std::fmt::format, fmt_stub2)]
fn c16_top_table_flush() {
    let bs: u8 = kani::any();
    kani::assume(bs >= 9 && bs <= 10);
    let info = crate::meta::verif_header::mk_info(12, 4, 1u64 << 40, bs, Some((12, 8192)), Some((12, 8192)), false, false, false);
    let env = KEnv::new(info);
    let toff: u64 = kani::any();
    kani::assume(toff & 0xfff == 0 && toff >> 56 == 0);
    let mut rt = RefTable::new(Some(toff), 2048, bs);
    let i0: usize = kani::any();
    let i1: usize = kani::any();
    kani::assume(i0 < 256 && i1 < 256);
    rt.set_refblock_offset(i0, 0x1000);
    rt.set_refblock_offset(i1, 0x2000);
    let bsz = 1u64 << bs;
    let r = env.seg_k1(&rt);
    assert!(r.is_ok());
    let n = env.nrec.get();
    let same_blk = (i0 * 8) >> bs == (i1 * 8) >> bs;
    assert!(n == if same_blk { 1 } else { 2 });
    let mut k = 0;
    while k < 2 {
        if k < n {
            let w = env.get_rec(k);
            assert!(w.kind == K_BACKEND_WRITE && w.len as u64 == bsz);
            assert!(w.off % bsz == 0 && w.off >= toff && w.off + bsz <= toff + 2048);
            let lo = w.off - toff;
            let cov = |i: usize| (i as u64) * 8 >= lo && (i as u64) * 8 + 8 <= lo + bsz;
            assert!(cov(i0) || cov(i1));
        }
        k += 1;
    }
    assert!(rt.pop_dirty_blk_idx(None).is_none());
    kani::cover!(n == 2);
    kani::cover!(n == 1);
    core::mem::forget(r);
    core::mem::forget(env);
}

// @harness c16_top_table_flush_generic
// @props C16 C15 C02 C04
// @tier quick
// @cost 48
// @timeout 1200
// @needs K1 K2
// @desc flush_meta_generic (whole body, awaited calls shimmed) on a refcount table with up to 2 dirty entries: every write they issue for the top table starts at table_offset + (idx << block_bits), is exactly one block long, block aligned, lies inside the table and covers a dirtied entry; flush_meta_generic flushes the child slices of exactly that block's entries first, fsyncs iff something was flushed, and reports done only when no dirty block is left
// @bounds 512-byte and 1 KiB blocks symbolic; table of 2 KiB (256 entries); dirty entries: 2 arbitrary indices; table offset any cluster-aligned value
// @funcs Qcow2Dev::flush_top_table Qcow2Dev::flush_meta_generic Table::pop_dirty_blk_idx Table::set_dirty
// @stub alloc::fmt::format -> String::new()
#[kani::proof]
#[kani::unwind(5)]
#[kani::stub(std::fmt::format, fmt_stub2)]
fn c16_top_table_flush_generic() {
    let bs: u8 = kani::any();
    kani::assume(bs >= 9 && bs <= 10);
    let info = crate::meta::verif_header::mk_info(12, 4, 1u64 << 40, bs, Some((12, 8192)), Some((12, 8192)), false, false, false);
    let env = KEnv::new(info);
    let toff: u64 = kani::any();
    kani::assume(toff & 0xfff == 0 && toff >> 56 == 0);
    let mut rt = RefTable::new(Some(toff), 2048, bs);
    let i0: usize = kani::any();
    let i1: usize = kani::any();
    kani::assume(i0 < 256 && i1 < 256);
    rt.set_refblock_offset(i0, 0x1000);
    rt.set_refblock_offset(i1, 0x2000);
    let bsz = 1u64 << bs;
    env.cache_dirty.set(kani::any());
    let r = env.seg_k2(&rt, |off| env.seg_k0_rb(off));
    assert!(matches!(r, Ok(false))); // a dirty block was handled: not done yet
    let n = env.nrec.get();
    // flush_cache(window) [, fsync] , write of the block
    let fc = env.get_rec(0);
    assert!(fc.kind == K_FLUSH_CACHE);
    let w = env.get_rec(n - 1);
    assert!(w.kind == K_BACKEND_WRITE && w.len as u64 == bsz && w.off % bsz == 0);
    assert!(w.off >= toff && w.off + bsz <= toff + 2048);
    let blk = (w.off - toff) >> bs;
    assert!(fc.off as usize == env.seg_k0_rb(blk << bs) && fc.len == env.seg_k0_rb((blk + 1) << bs));
    if env.cache_dirty.get() {
        // whole-file sync between the child slices and the parent block
        assert!(n == 3);
        let fs = env.get_rec(1);
        assert!(fs.kind == K_FSYNC && fs.off == 0 && fs.len == usize::MAX);
    } else {
        assert!(n == 2);
    }
    kani::cover!(n == 3);
    kani::cover!(n == 2);
    core::mem::forget(r);
    core::mem::forget(env);
}

// @harness c18_flush_meta_driver
// @props C18 C03 C02 C04
// @tier quick
// @cost 8
// @timeout 600
// @needs FM
// @desc the whole body of flush_meta (lock and the two flush helpers shimmed; the mapping flush reports "not done" a symbolic number of times): every pass flushes the refcounts BEFORE the mappings; need_flush is cleared exactly once, after a pass in which the mapping flush reported that nothing is left, and never before (every helper call of every pass still sees the flag set); it returns Ok
// @bounds 0..=2 unfinished passes before the final one
// @funcs Qcow2Dev::flush_meta (whole body)
// @stub alloc::fmt::format -> String::new()
#[kani::proof]
#[kani::unwind(5)]
#[kani::stub(std::fmt::format, fmt_stub2)]
fn c18_flush_meta_driver() {
    let env = KEnv::new(crate::meta::verif_header::mk_info(16, 4, 1u64 << 40, 9, Some((9, 1024)), Some((9, 1024)), false, false, false));
    let passes: usize = kani::any();
    kani::assume(passes <= 2);
    env.passes_left.set(passes);
    env.mark_need_flush(true);
    let r = env.seg_fm();
    assert!(r.is_ok());
    assert!(!env.need_flush_meta());
    let n = env.nrec.get();
    assert!(n == 2 * (passes + 1));
    let mut k = 0;
    while k < 3 {
        if k <= passes {
            assert!(env.get_rec(2 * k).kind == K_FLUSH_REFCOUNT);
            assert!(env.get_rec(2 * k + 1).kind == K_FLUSH_MAPPING);
            // while passes are still running the flag has not been cleared (a failure in a later
            // pass must leave it set)
            assert!(env.get_rec(2 * k).flags == 1 && env.get_rec(2 * k + 1).flags == 1);
        }
        k += 1;
    }
    kani::cover!(passes == 2);
    kani::cover!(passes == 0);
    core::mem::forget(r);
    core::mem::forget(env);
}

// @harness c17_top_table_flush_failure
// @props C17 C18
// @tier quick
// @cost 11
// @timeout 900
// @needs K1 K2
// @desc a backend failure while a dirty top-table block is being written (flush_top_table / flush_meta_generic, whole bodies): the error is returned, and the block is STILL queued as dirty afterwards, so that repeating the flush once the backend works again writes it -- a dirty mark must not be lost with the failed request
// @bounds refcount table of 2 KiB (256 entries), one dirty entry at any index; 512-byte blocks; the write of the block fails
// @funcs Qcow2Dev::flush_top_table Qcow2Dev::flush_meta_generic Table::pop_dirty_blk_idx Table::set_dirty
// @stub alloc::fmt::format -> String::new()
#[kani::proof]
#[kani::unwind(5)]
#[kani::stub(std::fmt::format, fmt_stub2)]
fn c17_top_table_flush_failure() {
    let info = crate::meta::verif_header::mk_info(12, 4, 1u64 << 40, 9, Some((12, 8192)), Some((12, 8192)), false, false, false);
    let env = KEnv::new(info);
    let mut rt = RefTable::new(Some(0x1000), 2048, 9);
    let i0: usize = kani::any();
    kani::assume(i0 < 256);
    rt.set_refblock_offset(i0, 0x1000);
    env.fail_write.set(true);
    let generic: bool = kani::any();
    let r = if generic {
        env.seg_k2(&rt, |off| env.seg_k0_rb(off)).map(|_| ())
    } else {
        env.seg_k1(&rt)
    };
    assert!(r.is_err());
    // the block is still dirty: a retry will write it
    assert!(rt.pop_dirty_blk_idx(None) == Some(((i0 * 8) >> 9) as u32));
    kani::cover!(generic);
    kani::cover!(!generic);
    core::mem::forget(r);
    core::mem::forget(env);
}
