// Harness over the whole body of do_read_compressed (lifted from src/dev/read.rs; the inflate call
// is replaced by a recording stand-in); child of `crate::dev`.
// @module-needs env header spec seg:RC
#![allow(dead_code, unused_imports)]
use super::*;
use crate::dev::verif_env::*;
use crate::helpers::Qcow2IoBuf;
use crate::meta::verif_header::mk_info;
use crate::meta::{L2Entry, Mapping, MappingSource, SplitGuestOffset};
use crate::verif_spec as spec;
use miniz_oxide::inflate::TINFLStatus;

fn fmt_stub_rc(_a: core::fmt::Arguments<'_>) -> String {
    String::new()
}

const M_FIRST: u8 = 0xa5;
const M_LAST: u8 = 0x5a;

/// what the stand-in inflate writes at position i of its output
fn fill(i: usize) -> u8 {
    (i as u8) ^ 0x3c
}

impl KEnv {
    /// the backend read of the compressed window: marks the first and the last byte of the
    /// compressed data proper (host offsets `alloc_off` and `alloc_off + alloc_cnt - 1`)
    pub(crate) fn k_rc_call_read(&self, off: u64, buf: &mut Qcow2IoBuf<u8>) -> Qcow2Result<usize> {
        self.rec(Rec { kind: K_BACKEND_READ, entry: 0, off, len: buf.len(), buf_start: 0, flags: 0 });
        if self.fail_read.get() {
            return Err(crate::error::Qcow2Error::from_desc(String::new()));
        }
        let first = (self.alloc_off - off) as usize;
        let last = first + self.alloc_cnt - 1;
        buf[first] = M_FIRST;
        buf[last] = M_LAST;
        if self.sl.fail_add {
            return Ok(buf.len() - 1); // short read
        }
        Ok(buf.len())
    }
    /// stand-in for miniz_oxide's decompress: checks it is handed exactly the compressed bytes,
    /// fills two probed positions of the output, reports Done / HasMoreOutput / a failure
    pub(crate) fn k_rc_inflate(&self, src: &[u8], dst: &mut [u8]) -> (TINFLStatus, usize, usize) {
        let want_first = if src.len() == 1 { M_LAST } else { M_FIRST };
        let ok_src = src.len() == self.alloc_cnt && src[0] == want_first && src[src.len() - 1] == M_LAST;
        self.rec(Rec { kind: K_LEAF_COMPRESSED, entry: ok_src as u64, off: 0, len: src.len(), buf_start: dst.len(), flags: 0 });
        let i = self.write_probe_idx.get();
        if i < dst.len() {
            dst[i] = fill(i);
        }
        let st = match self.sl.l1e {
            0 => TINFLStatus::Done,
            1 => TINFLStatus::HasMoreOutput,
            _ => TINFLStatus::Failed,
        };
        (st, src.len(), dst.len())
    }
}

macro_rules! read_compressed {
    ($name:ident, $buflen:expr) => {
        #[kani::proof]
        #[kani::unwind(10)]
        #[kani::stub(std::fmt::format, fmt_stub_rc)]
        fn $name() {
            let cb = 10u32; // 1 KiB clusters, 512-byte blocks: whole-cluster and half-cluster reads
            let info = mk_info(cb, 4, 1u64 << 40, 9, Some((9, 1024)), Some((9, 1024)), false, false, false);
            let mut env = KEnv::new(info);
            let raw: u64 = kani::any();
            kani::assume(spec::l2_valid(raw, cb) && raw & spec::COMPRESSED != 0);
            let d = spec::decode_l2(raw, cb);
            kani::assume(d.host < (1u64 << 40));
            let m = L2Entry(raw).into_mapping(&env.info, &SplitGuestOffset(7 << cb));
            let clen = m.compressed_length.unwrap();
            assert!(m.cluster_offset == Some(d.host) && clen as u64 <= d.comp_len && clen >= 1);
            env.alloc_off = d.host;
            env.alloc_cnt = clen;
            env.fail_read.set(kani::any());
            env.sl.fail_add = kani::any(); // short read
            env.sl.l1e = kani::any(); // inflate status
            let buflen: usize = $buflen;
            let blk: usize = kani::any();
            kani::assume(blk <= 1);
            kani::assume(blk * 512 + buflen <= 1024);
            let off_in_cls = blk * 512;
            let j: usize = kani::any();
            kani::assume(j < buflen);
            // the stand-in inflate writes the cluster byte the caller's byte j comes from
            env.write_probe_idx.set(off_in_cls + j);
            let mut buf = [0x11u8; $buflen];

            let r = env.seg_rc(m, off_in_cls, &mut buf);

            assert!(env.count(K_BACKEND_READ) == 1);
            if env.fail_read.get() || env.sl.fail_add {
                assert!(r.is_err() && env.count(K_LEAF_COMPRESSED) == 0);
            } else {
                assert!(env.count(K_LEAF_COMPRESSED) == 1);
                let c = env.get_rec(env.first(K_LEAF_COMPRESSED));
                // exactly the compressed bytes went in; the output is one whole cluster
                assert!(c.entry == 1 && c.len == clen && c.buf_start == 1024);
                if env.sl.l1e <= 1 {
                    match &r { Ok(n) => assert!(*n == buflen), Err(_) => assert!(false) }
                    assert!(buf[j] == fill(off_in_cls + j));
                } else {
                    assert!(r.is_err());
                }
            }
            kani::cover!(r.is_ok() && (off_in_cls > 0 || buflen == 1024) && d.host & 511 != 0);
            kani::cover!(r.is_err() && !env.fail_read.get() && !env.sl.fail_add);
            core::mem::forget(r);
            core::mem::forget(env);
        }
    };
}

// @harness c01_read_compressed_part
// @props C01 C09 C14
// @tier quick
// @cost 60
// @timeout 1500
// @needs RC
// @desc whole do_read_compressed (lifted; inflate replaced by a stand-in that records what it is given) for a read of half a cluster: one backend read of the aligned window; the bytes handed to the decompressor are EXACTLY the compressed bytes of the descriptor (they start `pad` bytes into the window -- first and last byte are recognised -- and are compressed_length long, so the slice never leaves the buffer), its output buffer is one whole cluster, and the caller's byte j is the decompressed cluster's byte off_in_cls + j; a failed or short read and a decompressor failure return Err; no slice index panics for any spec-valid descriptor
// @bounds 1 KiB clusters, 512-byte blocks, every spec-valid compressed descriptor with host offset < 2^40 (1..4 sectors, any byte offset), caller buffer 512 bytes at in-cluster offset 0 or 512; read ok / fails / short; decompressor status Done / HasMoreOutput / Failed
// @assume inflate (miniz_oxide) replaced by a stand-in: its own correctness is outside; call_read marks the first and last compressed byte
// @funcs Qcow2Dev::do_read_compressed L2Entry::into_mapping
// @stub alloc::fmt::format -> String::new()
read_compressed!(c01_read_compressed_part, 512);

// @harness c01_read_compressed_whole
// @props C01 C09 C14
// @tier quick
// @cost 60
// @timeout 1500
// @needs RC
// @desc as c01_read_compressed_part for a read of the whole cluster (the decompressor writes straight into the caller's buffer)
// @bounds as c01_read_compressed_part with a 1024-byte caller buffer at in-cluster offset 0
// @assume as c01_read_compressed_part
// @funcs Qcow2Dev::do_read_compressed L2Entry::into_mapping
// @stub alloc::fmt::format -> String::new()
read_compressed!(c01_read_compressed_whole, 1024);
