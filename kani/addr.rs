// Harness module injected as a child of `crate::meta::addr`.
// @module-needs header
#![allow(dead_code, unused_imports)]
use super::*;
use crate::meta::verif_header::{any_geo, fmt_stub, info_of};
use crate::verif_spec as spec;

// @harness c15_split_guest_offset
// @props C15 C01 C09 C02
// @tier quick
// @cost 19
// @timeout 600
// @desc every method of SplitGuestOffset on the geometry derived by the real Qcow2Info::new equals the spec's index formulas (l1_index, l2_index, in-cluster offset), index composition reproduces the offset, slice key / slice index / slice byte offset are the quotient / remainder of the L2 index by the slice length, and two offsets share a cached slice and slot iff they lie in the same cluster
// @bounds guest offsets a, b: all u64; cluster_bits 9..=21, slice bits block..cluster, block bits 9..=12 all symbolic
// @funcs SplitGuestOffset::{l1_index,l2_index,l2_slice_index,l2_slice_key,l2_slice_off_in_table,in_cluster_offset,cluster_offset} Qcow2Info::new
// @stub alloc::fmt::format -> String::new()
#[kani::proof]
#[kani::stub(alloc::fmt::format, fmt_stub)]
fn c15_split_guest_offset() {
    let g = any_geo();
    let info = info_of(&g, kani::any(), false, false, false);
    let a: u64 = kani::any();
    let s = SplitGuestOffset(a);
    let cb = g.cb;
    let sl_bits = g.l2sb as u32 - 3; // log2(entries per slice) = slice bytes / 8
    assert!(s.guest_addr() == a);
    assert!(s.l1_index(&info) as u64 == spec::l1_index(a, cb));
    assert!(s.l2_index(&info) as u64 == spec::l2_index(a, cb));
    assert!(s.in_cluster_offset(&info) as u64 == a & (spec::cluster_size(cb) - 1));
    assert!(s.cluster_offset(&info) == a & !(spec::cluster_size(cb) - 1));
    // composition reproduces the offset
    let back = ((((s.l1_index(&info) as u64) << spec::l2_bits(cb)) | s.l2_index(&info) as u64) << cb)
        | s.in_cluster_offset(&info) as u64;
    assert!(back == a);
    // slice arithmetic: quotient / remainder of the l2 index by the slice length
    let l2i = spec::l2_index(a, cb);
    assert!(s.l2_slice_index(&info) as u64 == l2i & ((1u64 << sl_bits) - 1));
    assert!(s.l2_slice_off_in_table(&info) as u64 == (l2i >> sl_bits) << g.l2sb);
    assert!(s.l2_slice_key(&info) as u64 == (a >> cb) >> sl_bits);
    assert!((s.l2_slice_off_in_table(&info) as u64) / 8 + s.l2_slice_index(&info) as u64 == l2i);
    assert!((s.l2_slice_off_in_table(&info) as u64) < spec::cluster_size(cb));
    // key -> owning l1 entry
    assert!((s.l2_slice_key(&info) as u64) >> (spec::l2_bits(cb) - sl_bits) == spec::l1_index(a, cb));
    // same slice and slot <=> same cluster
    let b: u64 = kani::any();
    let t = SplitGuestOffset(b);
    let same_slot = s.l2_slice_key(&info) == t.l2_slice_key(&info)
        && s.l2_slice_index(&info) == t.l2_slice_index(&info);
    assert!(same_slot == (a >> cb == b >> cb));
    kani::cover!(same_slot && a != b);
    kani::cover!(g.l2sb as u32 == cb, "slice == whole L2 table");
    kani::cover!(g.l2sb == 9 && cb == 21);
    kani::cover!(a == u64::MAX);
    core::mem::forget(info);
}
