// Harnesses over the copy-on-write merges lifted from src/dev/write.rs; child of `crate::dev`.
// @module-needs env header seg:B0
#![allow(dead_code, unused_imports)]
use super::*;
use crate::dev::verif_env::*;
use crate::meta::verif_header::{any_geo, info_of, mk_info, Geo};
use crate::meta::{L2Entry, Mapping, MappingSource, SplitGuestOffset};
use crate::verif_spec as spec;

fn fmt_stub2(_a: core::fmt::Arguments<'_>) -> String {
    String::new()
}

macro_rules! cow_merge {
    ($name:ident, $compressed:expr, $second:expr) => {
#[kani::proof]
#[kani::unwind(4)]
#[kani::stub(std::fmt::format, fmt_stub2)]
fn $name() {
    let mut env = KEnv::new(mk_info(10, 4, 1u64 << 40, 9, Some((9, 1024)), Some((9, 1024)), false, false, true));
    let src: [u8; 1024] = kani::any();
    *env.cow_src.borrow_mut() = src;
    env.backing_file = Some(KBacking);
    let data: [u8; 512] = kani::any();
    let second: bool = $second;
    let off_in_cls: usize = if second { 512 } else { 0 };
    let host_off: u64 = kani::any();
    kani::assume(host_off & 1023 == 0 && host_off >> 56 == 0);
    let compressed: bool = $compressed;
    let guest_cluster: u64 = kani::any();
    kani::assume(guest_cluster < (1 << 40));
    let virt_off = (guest_cluster << 10) + off_in_cls as u64;
    let r = if compressed {
        let m = Mapping { source: MappingSource::Compressed, cluster_offset: Some(0x5000), compressed_length: Some(700), copied: false };
        let r = env.seg_b0c(off_in_cls, &data, host_off, &m);
        core::mem::forget(m);
        r
    } else {
        env.seg_b0b(virt_off, off_in_cls, &data, host_off)
    };
    assert!(r.is_ok());
    assert!(env.nrec.get() == 2);
    let rd = env.get_rec(0);
    assert!(rd.kind == K_READ && rd.len == 1024);
    if compressed {
        assert!(rd.off == 0); // whole cluster, from in-cluster offset 0
    } else {
        assert!(rd.off == guest_cluster << 10); // start of the guest cluster in the backing image
    }
    let w = env.get_rec(1);
    assert!(w.kind == K_BACKEND_WRITE && w.off == host_off && w.len == 1024);
    let i = env.write_probe_idx.get();
    let got = env.write_probe.get();
    let want = if i >= off_in_cls && i < off_in_cls + 512 { data[i - off_in_cls] } else { src[i] };
    assert!(got == want);
    kani::cover!(i >= off_in_cls && i < off_in_cls + 512, "byte inside the written range");
    kani::cover!(i < off_in_cls || i >= off_in_cls + 512, "byte outside the written range comes from the source");
    core::mem::forget(r);
    core::mem::forget(env);
}
    };
}

// @harness c10_cow_merge_compressed_head
// @props C10 C01 C16
// @tier quick
// @cost 17
// @timeout 1200
// @needs B0
// @desc the whole bodies of do_compressed_cow and do_back_cow (source read and backend write shimmed) on a 1 KiB cluster: the cluster written to the new host location is the SOURCE cluster (inflated compressed data / backing data) with the caller's bytes laid over exactly [off_in_cls, off_in_cls+len) -- every other byte equals the source; the source is read whole, from the start of the guest cluster; exactly one write, cluster sized, at the new host offset
// @bounds cluster 1 KiB, block 512 B; partial write of one block at in-cluster offset 0; source cluster and caller bytes arbitrary; checked at a universally quantified byte index; compressed source
// @funcs Qcow2Dev::do_compressed_cow Qcow2Dev::do_back_cow
// @stub alloc::fmt::format -> String::new()
cow_merge!(c10_cow_merge_compressed_head, true, false);

// @harness c10_cow_merge_compressed_tail
// @props C10 C01 C16
// @tier quick
// @cost 17
// @timeout 1200
// @needs B0
// @desc the whole bodies of do_compressed_cow and do_back_cow (source read and backend write shimmed) on a 1 KiB cluster: the cluster written to the new host location is the SOURCE cluster (inflated compressed data / backing data) with the caller's bytes laid over exactly [off_in_cls, off_in_cls+len) -- every other byte equals the source; the source is read whole, from the start of the guest cluster; exactly one write, cluster sized, at the new host offset
// @bounds cluster 1 KiB, block 512 B; partial write of one block at in-cluster offset 512; source cluster and caller bytes arbitrary; checked at a universally quantified byte index; compressed source
// @funcs Qcow2Dev::do_compressed_cow Qcow2Dev::do_back_cow
// @stub alloc::fmt::format -> String::new()
cow_merge!(c10_cow_merge_compressed_tail, true, true);

// @harness c10_cow_merge_backing_head
// @props C10 C01 C16
// @tier quick
// @cost 18
// @timeout 1200
// @needs B0
// @desc the whole bodies of do_compressed_cow and do_back_cow (source read and backend write shimmed) on a 1 KiB cluster: the cluster written to the new host location is the SOURCE cluster (inflated compressed data / backing data) with the caller's bytes laid over exactly [off_in_cls, off_in_cls+len) -- every other byte equals the source; the source is read whole, from the start of the guest cluster; exactly one write, cluster sized, at the new host offset
// @bounds cluster 1 KiB, block 512 B; partial write of one block at in-cluster offset 0; source cluster and caller bytes arbitrary; checked at a universally quantified byte index; backing source
// @funcs Qcow2Dev::do_compressed_cow Qcow2Dev::do_back_cow
// @stub alloc::fmt::format -> String::new()
cow_merge!(c10_cow_merge_backing_head, false, false);

// @harness c10_cow_merge_backing_tail
// @props C10 C01 C16
// @tier quick
// @cost 17
// @timeout 1200
// @needs B0
// @desc the whole bodies of do_compressed_cow and do_back_cow (source read and backend write shimmed) on a 1 KiB cluster: the cluster written to the new host location is the SOURCE cluster (inflated compressed data / backing data) with the caller's bytes laid over exactly [off_in_cls, off_in_cls+len) -- every other byte equals the source; the source is read whole, from the start of the guest cluster; exactly one write, cluster sized, at the new host offset
// @bounds cluster 1 KiB, block 512 B; partial write of one block at in-cluster offset 512; source cluster and caller bytes arbitrary; checked at a universally quantified byte index; backing source
// @funcs Qcow2Dev::do_compressed_cow Qcow2Dev::do_back_cow
// @stub alloc::fmt::format -> String::new()
cow_merge!(c10_cow_merge_backing_tail, false, true);

