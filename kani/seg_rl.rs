// Harnesses over the read leaves (do_read_data_file, do_read_zero, do_read_backing), lifted from
// src/dev/read.rs; child of `crate::dev`.
// @module-needs env header spec seg:RL
#![allow(dead_code, unused_imports)]
use super::*;
use crate::dev::verif_env::*;
use crate::meta::verif_header::mk_info;
use crate::meta::{L2Entry, Mapping, MappingSource, SplitGuestOffset};
use crate::verif_spec as spec;

const S_DATA: u8 = 0;
const S_ZERO: u8 = 1;
const S_UNALLOC: u8 = 2;
const S_BACKING: u8 = 3;
const S_COMP: u8 = 4;

fn fmt_stub_rl(_a: core::fmt::Arguments<'_>) -> String {
    String::new()
}

impl KEnv {
    /// the backing device's read_at_for_backing: records the guest offset and length it is asked for
    pub(crate) fn k_rl_backing_read(&self, _b: &KBacking, buf: &mut [u8], off: u64) -> Qcow2Result<usize> {
        self.rec(Rec { kind: K_LEAF_BACKING, entry: 0, off, len: buf.len(), buf_start: 0, flags: 0 });
        if self.fail_read.get() {
            return Err(crate::error::Qcow2Error::from_desc(String::new()));
        }
        Ok(buf.len())
    }
}

// @harness c01_read_leaves
// @props C01 C10 C16
// @tier quick
// @cost 15
// @timeout 900
// @needs RL
// @desc whole do_read_data_file, do_read_zero and do_read_backing (lifted) on the mapping the real decoder produces, over a real 1 KiB caller buffer with arbitrary previous content: an allocated cluster is read with exactly one backend read at host offset + offset-in-cluster, exactly the buffer long, into the caller's buffer; a zero / unallocated cluster makes EVERY byte of the buffer zero (symbolic position) and reports the whole length without any request; a backing-provided cluster asks the backing device for exactly the same guest range (guest cluster + offset-in-cluster, buffer length), and reads as zeros when no backing device is attached; errors are handed on
// @bounds 64 KiB clusters, 512-byte blocks; every spec-valid standard / zero / unallocated L2 entry; guest cluster and in-cluster offset symbolic (block aligned); buffer of 1024 bytes
// @assume call_read / the backing device record the request (call_read stores one byte at a symbolic index of the buffer)
// @funcs Qcow2Dev::do_read_data_file Qcow2Dev::do_read_zero Qcow2Dev::do_read_backing L2Entry::into_mapping
// @stub alloc::fmt::format -> String::new()
#[kani::proof]
#[kani::unwind(10)]
#[kani::stub(std::fmt::format, fmt_stub_rl)]
fn c01_read_leaves() {
    let cb = 16u32;
    let has_backing: bool = kani::any();
    let info = mk_info(cb, 4, 1u64 << 40, 9, Some((12, 8192)), Some((9, 1024)), false, false, has_backing);
    let mut env = KEnv::new(info);
    let attached: bool = kani::any();
    if has_backing && attached {
        env.backing_file = Some(KBacking);
    }
    env.fail_read.set(kani::any());
    let probe: u8 = kani::any();
    env.write_probe.set(probe);
    let raw: u64 = kani::any();
    kani::assume(spec::l2_valid(raw, cb) && raw & spec::COMPRESSED == 0);
    let gc: u64 = kani::any();
    kani::assume(gc < (1u64 << 24));
    let blk: usize = kani::any();
    kani::assume(blk <= 126);
    let off_in_cls = blk * 512;
    let guest = gc << cb;
    let m = L2Entry(raw).into_mapping(&env.info, &SplitGuestOffset(guest));
    let src: u8 = match &m.source {
        MappingSource::DataFile => S_DATA,
        MappingSource::Zero => S_ZERO,
        MappingSource::Unallocated => S_UNALLOC,
        MappingSource::Backing => S_BACKING,
        MappingSource::Compressed => S_COMP,
    };
    let d = spec::decode_l2(raw, cb);
    let mut buf: [u8; 1024] = kani::any();
    let before = buf;
    let j: usize = kani::any();
    kani::assume(j < 1024);

    let r = match src {
        S_DATA => env.seg_rl_data(m, off_in_cls, &mut buf),
        S_ZERO | S_UNALLOC => {
            core::mem::forget(m);
            env.seg_rl_zero(&mut buf)
        }
        S_BACKING => env.seg_rl_backing(m, off_in_cls, &mut buf),
        _ => {
            core::mem::forget(m);
            assert!(false);
            return;
        }
    };

    match src {
        S_DATA => {
            assert!(d.kind == spec::Kind::Data);
            assert!(env.nrec.get() == 1);
            let q = env.get_rec(0);
            assert!(q.kind == K_BACKEND_READ && q.off == d.host + off_in_cls as u64 && q.len == 1024);
            if env.fail_read.get() {
                assert!(r.is_err() && buf[j] == before[j]);
            } else {
                match &r { Ok(n) => assert!(*n == 1024), Err(_) => assert!(false) }
                // the store the backend made landed in the caller's buffer
                let i = env.write_probe_idx.get();
                assert!(buf[i] == probe);
                assert!(j == i || buf[j] == before[j]);
            }
        }
        S_ZERO | S_UNALLOC => {
            assert!(env.nrec.get() == 0);
            match &r { Ok(n) => assert!(*n == 1024), Err(_) => assert!(false) }
            assert!(buf[j] == 0);
        }
        S_BACKING => {
            assert!(has_backing && d.kind == spec::Kind::Unallocated);
            if attached {
                assert!(env.nrec.get() == 1);
                let q = env.get_rec(0);
                assert!(q.kind == K_LEAF_BACKING && q.off == guest + off_in_cls as u64 && q.len == 1024);
                assert!(r.is_ok() != env.fail_read.get());
            } else {
                assert!(env.nrec.get() == 0);
                match &r { Ok(n) => assert!(*n == 1024), Err(_) => assert!(false) }
                assert!(buf[j] == 0);
            }
        }
        _ => {}
    }
    kani::cover!(src == S_DATA && r.is_ok() && off_in_cls > 0);
    kani::cover!(src == S_ZERO && before[j] != 0);
    kani::cover!(src == S_UNALLOC && before[j] != 0);
    kani::cover!(src == S_BACKING && attached && r.is_ok());
    kani::cover!(src == S_BACKING && !attached && before[j] != 0);
    core::mem::forget(r);
    core::mem::forget(env);
}
