// Harnesses over segments lifted from src/dev/write.rs::__write_at; child of `crate::dev`.
// @module-needs env header seg:W0 seg:WF
#![allow(dead_code, unused_imports)]
use super::*;
use crate::dev::verif_env::*;
use crate::meta::verif_header::{any_geo, fmt_stub, info_of, Geo};
use crate::meta::L2Entry;
use crate::verif_spec as spec;

fn fmt_stub2(_a: core::fmt::Arguments<'_>) -> String {
    String::new()
}

// @harness c13_write_validation
// @props C13 C10
// @tier quick
// @cost 15
// @timeout 900
// @needs W0
// @desc the complete argument validation of write_at (everything before its first await, lifted verbatim): for ALL offsets and lengths, Err <=> (length or offset not a multiple of the block size, or offset+len overflows or exceeds the virtual size, or the device is read-only, incl. every backing device); no arithmetic overflow or panic for any argument; when validation passes, `single` <=> first and last byte lie in the same cluster
// @bounds offset: all u64; len: all usize <= isize::MAX; virtual size: all u64 <= 2^63; cluster_bits 9..=21, block bits 9..=12, slice bits symbolic; read-only / backing-device flags symbolic
// @funcs Qcow2Dev::__write_at (prologue) Qcow2Info::{virtual_size,is_read_only,cluster_bits} Qcow2Info::new
// @stub alloc::fmt::format -> String::new()
// @assume virtual size <= 2^63 (largest size the format's signed 64-bit offsets can express)
#[kani::proof]
#[kani::stub(std::fmt::format, fmt_stub2)]
fn c13_write_validation() {
    let g = any_geo();
    let vsize: u64 = kani::any();
    kani::assume(vsize <= 1u64 << 63);
    let ro: bool = kani::any();
    let back_dev: bool = kani::any();
    let env = KEnv::new(info_of(&g, vsize, ro, back_dev, false));
    let offset: u64 = kani::any();
    let len: usize = kani::any();
    kani::assume(len <= isize::MAX as usize);
    let r = env.seg_w0(KBuf::new(len), offset);
    let bs = 1u64 << g.bs;
    let end = offset.checked_add(len as u64);
    let valid = (len as u64) % bs == 0
        && offset % bs == 0
        && end.map(|e| e <= vsize).unwrap_or(false)
        && !(ro || back_dev);
    assert!(r.is_ok() == valid);
    // an accepted empty write may return before or after deriving `single`
    assert!(env.passed.get() == valid || (valid && len == 0));
    if valid && len > 0 {
        let o = env.out.get();
        let single = (offset >> g.cb) == ((offset + len as u64 - 1) >> g.cb);
        assert!((o[0] != 0) == single);
        assert!(o[1] == len as u64 && o[2] == offset);
    }
    kani::cover!(valid && len > 0);
    kani::cover!(valid && len == 0);
    kani::cover!(!valid && end.is_none(), "offset + len overflows u64");
    kani::cover!(!valid && (ro || back_dev) && end.map(|e| e <= vsize).unwrap_or(false));
    kani::cover!(valid && end == Some(vsize), "write ending exactly at the virtual size");
    core::mem::forget(r);
    core::mem::forget(env);
}

macro_rules! c01_write_split_h {
    ($name:ident, $span:expr) => {
#[kani::proof]
#[kani::unwind(10)]
#[kani::stub(std::fmt::format, fmt_stub2)]
fn $name() {
    let g = any_geo();
    let vsize: u64 = kani::any();
    kani::assume(vsize <= 1u64 << 63);
    let ro: bool = kani::any();
    let mut env = KEnv::new(info_of(&g, vsize, ro, false, false));
    let ents: [u64; MAX_REC] = kani::any();
    let mut i = 0;
    while i < MAX_REC {
        env.entries[i] = L2Entry(ents[i]);
        i += 1;
    }
    let offset: u64 = kani::any();
    let len: usize = kani::any();
    let cs = 1u64 << g.cb;
    kani::assume(len >= 1 && (len as u64) <= $span * cs + cs / 2);
    let r = env.seg_wf(KBuf::new(len), offset);
    let bs = 1u64 << g.bs;
    let valid = (len as u64) % bs == 0 && offset % bs == 0
        && offset.checked_add(len as u64).map(|e| e <= vsize).unwrap_or(false) && !ro;
    assert!(r.is_ok() == valid);
    let n = env.nrec.get();
    if !valid {
        assert!(n == 0); // no mapping update, no write
    } else {
        let first = offset >> g.cb;
        let last = (offset + len as u64 - 1) >> g.cb;
        let pieces = (last - first + 1) as usize;
        assert!(n == pieces + 1);
        let p = env.get_rec(0);
        assert!(p.kind == K_POPULATE && p.off == offset);
        assert!(pieces == 1 || p.len == len);
        let mut pos = offset;
        let mut bpos = 0usize;
        let mut k = 0;
        while k < 7 {
            if k < pieces {
                let w = env.get_rec(k + 1);
                assert!(w.kind == K_WRITE);
                assert!(w.off == pos && w.buf_start == bpos && w.len > 0);
                assert!(w.off >> g.cb == (w.off + w.len as u64 - 1) >> g.cb); // inside one cluster
                assert!(w.off >> g.cb == first + k as u64);
                assert!(w.entry == ents[k]);
                pos += w.len as u64;
                bpos += w.len;
            }
            k += 1;
        }
        assert!(pos == offset + len as u64 && bpos == len);
        kani::cover!(pieces as u64 == $span + 1 && offset & (cs - 1) != 0, "unaligned start, maximal span");
        kani::cover!(pieces == 1);
        kani::cover!(pieces == 2 && len as u64 <= cs, "sub-cluster length straddling a boundary");
    }
    kani::cover!(!valid);
    core::mem::forget(r);
    core::mem::forget(env);
}
    };
}

// @harness c01_write_split
// @props C01 C13 C16
// @tier quick
// @cost 100
// @timeout 1200
// @needs WF
// @desc the whole body of __write_at with its awaited callees shimmed: a rejected request reaches no mapping update and no write; an accepted request is cut into pieces that, in order, exactly partition [offset, offset+len), none crossing a cluster boundary, piece k carrying the L2 entry of the k-th guest cluster of the request and the k-th consecutive sub-range of the caller's buffer; mappings are populated once, for exactly the request range
// @bounds offset: all u64; len: all block-aligned values spanning <= 4 clusters; virtual size <= 2^63; full symbolic geometry; L2 entries arbitrary
// @funcs Qcow2Dev::__write_at (whole body; populate_*_write_mapping(s) and do_write replaced by recorders)
// @stub alloc::fmt::format -> String::new()
c01_write_split_h!(c01_write_split, 3);

// @harness c01_write_split_6
// @props C01 C13 C16
// @tier thorough
// @cost 400
// @timeout 3000
// @needs WF
// @desc the whole body of __write_at with its awaited callees shimmed: a rejected request reaches no mapping update and no write; an accepted request is cut into pieces that, in order, exactly partition [offset, offset+len), none crossing a cluster boundary, piece k carrying the L2 entry of the k-th guest cluster of the request and the k-th consecutive sub-range of the caller's buffer; mappings are populated once, for exactly the request range
// @bounds offset: all u64; len: all block-aligned values spanning <= 6 clusters; virtual size <= 2^63; full symbolic geometry; L2 entries arbitrary
// @funcs Qcow2Dev::__write_at (whole body; populate_*_write_mapping(s) and do_write replaced by recorders)
// @stub alloc::fmt::format -> String::new()
c01_write_split_h!(c01_write_split_6, 5);
