// Harnesses over the mapping-creation steps lifted from src/dev/write.rs; child of `crate::dev`.
// @module-needs env header seg:L0 seg:L1 seg:M1
#![allow(dead_code, unused_imports)]
use super::*;
use crate::dev::verif_env::*;
use crate::meta::verif_header::{any_geo, info_of, mk_info, Geo};
use crate::meta::{L1Entry, L1Table, L2Entry, L2Table, Mapping, MappingSource, SplitGuestOffset, Table, TableEntry};
use crate::verif_spec as spec;
use std::cell::RefMut;

fn fmt_stub2(_a: core::fmt::Arguments<'_>) -> String {
    String::new()
}

impl KEnv {
    /// the awaited callee of make_single_write_mapping is itself lifted code (segment L1)
    pub(crate) fn k_alloc_and_map_cluster(
        &self,
        split: &SplitGuestOffset,
        l2_table: &mut RefMut<'_, L2Table>,
    ) -> Qcow2Result<Mapping> {
        self.seg_l1(split, &mut **l2_table)
    }
}

// @harness c03_l1_map_step
// @props C03 C18 C12
// @tier quick
// @cost 17
// @timeout 900
// @needs L0
// @desc the tail of ensure_l2_offset (from the cluster allocation to the end, lifted verbatim): the L1 entry that publishes a new L2 table is exactly COPIED | allocated cluster (cluster aligned, reserved bits clear), the cluster is registered as new (to be zeroed before first use), the L1 block is queued dirty and need_flush is set; other L1 entries are untouched
// @bounds 8-entry L1 table with arbitrary content; index 0..8; allocated cluster: any aligned offset < 2^56; full symbolic geometry
// @funcs Qcow2Dev::ensure_l2_offset (tail) L1Table::map_l2_offset
// @stub alloc::fmt::format -> String::new()
#[kani::proof]
#[kani::unwind(10)]
#[kani::stub(std::fmt::format, fmt_stub2)]
fn c03_l1_map_step() {
    let g = any_geo();
    let mut env = KEnv::new(info_of(&g, 1u64 << 40, false, false, false));
    let cs = 1u64 << g.cb;
    let host: u64 = kani::any();
    kani::assume(host != 0 && host & (cs - 1) == 0 && host >> 56 == 0);
    env.alloc_off = host;
    let mut l1 = L1Table::new(Some(3 * cs), 64, 8, g.bs);
    let before: [u64; 8] = kani::any();
    let mut i = 0;
    while i < 8 {
        l1.set(i, unsafe { core::mem::transmute::<u64, L1Entry>(before[i]) });
        i += 1;
    }
    let idx: usize = kani::any();
    kani::assume(idx < 8);
    let r = env.seg_l0(&mut l1, idx);
    assert!(r.is_ok());
    if let Ok(e) = &r {
        assert!(e.into_plain() == spec::COPIED | host);
    }
    let mut k = 0;
    while k < 8 {
        let v = l1.get(k).into_plain();
        if k == idx {
            assert!(v == spec::COPIED | host && spec::l1_valid(v, g.cb));
        } else {
            assert!(v == before[k]);
        }
        k += 1;
    }
    assert!(env.need_flush_meta());
    assert!(env.count(K_NEWCLUSTER) == 1 && env.count(K_ALLOC) == 1);
    assert!(l1.pop_dirty_blk_idx(None) == Some(((idx as u32) * 8) >> g.bs));
    kani::cover!(idx == 7);
    core::mem::forget(r);
    core::mem::forget(env);
}

// @harness c03_single_write_mapping
// @props C03 C18 C01
// @tier quick
// @cost 69
// @timeout 1200
// @needs M1 L1
// @desc make_single_write_mapping + alloc_and_map_cluster (whole bodies, lock / lookup / allocator shimmed) on an L2 slice with arbitrary content: if the cluster is writable in place nothing changes and nothing is allocated; otherwise exactly one cluster is allocated, registered as new, and the addressed entry becomes COPIED | that cluster; every other entry of the slice is untouched; whenever the slice changed it is marked dirty AND need_flush is set; the entry returned is the one now stored
// @bounds real 512-byte slice (64 entries), arbitrary content in the 8-entry window around the addressed entry; guest offset any value < 2^56; allocated cluster any aligned offset < 2^56; cluster_bits 9..=21 symbolic; has-backing symbolic
// @funcs Qcow2Dev::make_single_write_mapping Qcow2Dev::alloc_and_map_cluster L2Table::{get_mapping,get_entry,map_cluster} Mapping::plain_offset
// @stub alloc::fmt::format -> String::new()
#[kani::proof]
#[kani::unwind(10)]
#[kani::stub(std::fmt::format, fmt_stub2)]
fn c03_single_write_mapping() {
    let g = any_geo();
    kani::assume(g.bs == 9 && g.l2sb == 9);
    let has_back: bool = kani::any();
    let mut env = KEnv::new(info_of(&g, 1u64 << 62, false, false, has_back));
    let nf0: bool = kani::any();
    env.mark_need_flush(nf0);
    let cs = 1u64 << g.cb;
    let host: u64 = kani::any();
    kani::assume(host != 0 && host & (cs - 1) == 0 && host >> 56 == 0);
    env.alloc_off = host;
    let guest: u64 = kani::any();
    kani::assume(guest >> 56 == 0);
    let idx = ((guest >> g.cb) & 63) as usize;
    let base = idx & !7;
    let mut t = L2Table::new(Some(0x10000), 512, g.cb as usize);
    let before: [u64; 8] = kani::any();
    let mut i = 0;
    while i < 8 {
        t.set(base + i, L2Entry(before[i]));
        i += 1;
    }
    env.l2_slice = Some(KHandle::new(t));
    let old = before[idx - base];
    let r = env.seg_m1(guest);
    assert!(r.is_ok());
    let h = env.l2_slice.as_ref().unwrap();
    let tbl = h.value().kwrite();
    let in_place = old & (spec::COMPRESSED | spec::ZERO_FLAG) == 0
        && old & spec::COPIED != 0
        && old & spec::STD_OFFSET_MASK != 0;
    let now = tbl.get(idx).0;
    if let Ok(e) = &r {
        assert!(e.0 == now);
    }
    let mut k = 0;
    while k < 8 {
        if base + k != idx {
            assert!(tbl.get(base + k).0 == before[k]);
        }
        k += 1;
    }
    if in_place {
        assert!(now == old && env.nrec.get() == 0);
    } else {
        assert!(now == spec::COPIED | host);
        assert!(env.count(K_ALLOC) == 1 && env.count(K_NEWCLUSTER) == 1);
        assert!(env.get_rec(1).off == host >> g.cb);
    }
    if now != old {
        assert!(h.is_dirty() && env.need_flush_meta());
    } else {
        assert!(env.need_flush_meta() == nf0);
    }
    kani::cover!(in_place);
    kani::cover!(!in_place && old & spec::COMPRESSED != 0);
    kani::cover!(!in_place && old == 0);
    drop(tbl);
    core::mem::forget(r);
    core::mem::forget(env);
}
