// Harnesses over the slice lookup / load wrappers (get_l2_slice, get_l2_slice_slow, add_l2_slice,
// get_refblock, add_rb_slice), lifted from src/dev/cache.rs and src/dev/alloc.rs; child of `crate::dev`.
// @module-needs env header spec seg:SL
#![allow(dead_code, unused_imports)]
use super::*;
use crate::dev::verif_env::*;
use crate::meta::verif_header::mk_info;
use crate::meta::{L1Entry, RefTableEntry, SplitGuestOffset, Table, TableEntry};
use crate::verif_spec as spec;

fn fmt_stub_sl(_a: core::fmt::Arguments<'_>) -> String {
    String::new()
}

// geometry of both harnesses: 4 KiB clusters, 16-bit refcounts, 512-byte blocks,
// L2 slices of 1 KiB (128 entries), refcount slices of 512 bytes (256 entries) -- different on purpose
const CB: u32 = 12;
const ORDER: u32 = 4;
const L2SB: u32 = 10;
const RBSB: u32 = 9;

fn sl_env() -> KEnv {
    let info = mk_info(CB, ORDER, 1u64 << 40, 9, Some((L2SB as u8, 2048)), Some((RBSB as u8, 1024)), false, false, false);
    let mut env = KEnv::new(info);
    env.sl.evict = if kani::any() { Some(kani::any()) } else { None };
    env.sl.fail_add = kani::any();
    env.sl.fail_flush_rc = kani::any();
    env.sl.fail_flush = kani::any();
    env.sl.fail_l1 = kani::any();
    env
}

// @harness c02_refblock_slice_load
// @props C02 C03 C17
// @tier quick
// @cost 10
// @timeout 900
// @needs SL
// @desc whole get_refblock + add_rb_slice (lifted): a hit returns the cached slice of exactly the key of the cluster's refcount slice and loads nothing; a miss asks add_cache_slice exactly once for the refcount cache, with that key, the byte offset of that slice inside its refcount block (per the spec's refcount_block_index), a slice of 2^rb_slice_bits bytes holding (bytes*8 >> refcount_order) counters, under the refcount-table entry it was given; whatever add_cache_slice evicted is handed to flush_cache_entries once, in full; an error of the load or of the write-back is returned and no slice is handed out; the slice handed out after the load is looked up under the same key
// @bounds 4 KiB clusters, 16-bit refcounts, 512-byte refcount slices (and 1 KiB L2 slices), every host cluster offset below 2^56, every refcount-table entry; eviction of any number of entries or none; load and write-back succeed or fail; second lookup hits or misses
// @assume add_cache_slice and flush_cache_entries by contract here (their bodies are decided by c18_add_cache_slice and c03_flush_entries_*); the LRU cache is replaced by a probe whose two lookups hit or miss as the environment decides
// @funcs Qcow2Dev::get_refblock Qcow2Dev::add_rb_slice HostCluster::rb_slice_key HostCluster::rb_slice_off_in_table RefBlock::new
// @stub alloc::fmt::format -> String::new()
#[kani::proof]
#[kani::unwind(10)]
#[kani::stub(std::fmt::format, fmt_stub_sl)]
fn c02_refblock_slice_load() {
    let mut env = sl_env();
    env.sl.rb.hit = [kani::any(), kani::any()];
    let host: u64 = kani::any();
    kani::assume(host < (1u64 << 56));
    let cls = HostCluster(host);
    let rt_raw: u64 = kani::any();
    let rt_e = RefTableEntry(rt_raw);

    let r = env.seg_sl_get_rb(&cls, &rt_e);

    // the spec's view of where the counter of `host` lives
    let slice_entries_bits = RBSB + 3 - ORDER;
    let key = ((host >> CB) >> slice_entries_bits) as usize;
    let off = ((spec::rb_index(host, CB, ORDER) >> slice_entries_bits) << RBSB) as u64;
    assert!(env.sl.l2.gets.get() == 0);
    assert!(env.sl.rb.keys[0].get() == key);
    if env.sl.rb.hit[0] {
        assert!(env.nrec.get() == 0 && env.sl.rb.gets.get() == 1);
        match &r {
            Ok(t) => assert!(t.key == key && t.which == KWhich::Rb),
            Err(_) => assert!(false),
        }
    } else {
        assert!(env.count(K_ADD_SLICE) == 1);
        let a = env.get_rec(env.first(K_ADD_SLICE));
        assert!(a.flags & 3 == KWhich::Rb as u32 && a.buf_start == key && a.off == off);
        assert!(a.len == 1usize << RBSB && (a.flags >> 2) as usize == (8usize << RBSB) >> ORDER);
        assert!(a.entry == rt_e.get_value());
        assert!(env.count(K_FLUSH_REFCOUNT) == 0 || env.first(K_FLUSH_REFCOUNT) < env.first(K_FLUSH_ENTRIES));
        let evicted = !env.sl.fail_add && env.sl.evict.is_some();
        if evicted {
            assert!(env.count(K_FLUSH_ENTRIES) == 1);
            let f = env.get_rec(env.first(K_FLUSH_ENTRIES));
            assert!(Some(f.len) == env.sl.evict && env.first(K_ADD_SLICE) < env.first(K_FLUSH_ENTRIES));
        } else {
            assert!(env.count(K_FLUSH_ENTRIES) == 0);
        }
        let failed = env.sl.fail_add || (evicted && env.sl.fail_flush);
        if failed {
            assert!(r.is_err() && env.sl.rb.gets.get() == 1);
        } else {
            assert!(env.sl.rb.gets.get() == 2 && env.sl.rb.keys[1].get() == key);
            match &r {
                Ok(t) => assert!(env.sl.rb.hit[1] && t.key == key && t.which == KWhich::Rb),
                Err(_) => assert!(!env.sl.rb.hit[1]),
            }
        }
    }
    kani::cover!(r.is_ok() && !env.sl.rb.hit[0] && env.sl.evict.is_some());
    kani::cover!(r.is_err() && !env.sl.fail_add && env.sl.fail_flush);
    kani::cover!(off != 0 && key > 1000);
    core::mem::forget(r);
    core::mem::forget(env);
}

// @harness c02_l2_slice_load
// @props C02 C04 C17 C01
// @tier quick
// @cost 10
// @timeout 900
// @needs SL
// @desc whole get_l2_slice + get_l2_slice_slow + add_l2_slice (lifted): a hit returns the cached slice under the key of the guest offset's L2 slice and loads nothing; a miss fetches the L1 entry, then asks add_cache_slice exactly once for the L2 cache with that key, the byte offset of that slice inside its L2 table (per the spec's l2_index), a slice of 2^l2_slice_bits bytes (8-byte entries), under that L1 entry; when the load evicted entries the REFCOUNTS ARE FLUSHED FIRST and then exactly the evicted entries are written back (refcount before mapping); errors of the L1 lookup, the load, the refcount flush or the write-back are returned and no slice is handed out
// @bounds 4 KiB clusters, 1 KiB L2 slices (and 512-byte refcount slices), every guest offset below 2^56, every L1 entry value; eviction of any number of entries or none; every combination of failing steps; second lookup hits or misses
// @assume add_cache_slice, flush_refcount, flush_cache_entries and get_l1_entry by contract here; the LRU cache is replaced by a probe whose two lookups hit or miss as the environment decides
// @funcs Qcow2Dev::get_l2_slice Qcow2Dev::get_l2_slice_slow Qcow2Dev::add_l2_slice SplitGuestOffset::l2_slice_key SplitGuestOffset::l2_slice_off_in_table L2Table::new
// @stub alloc::fmt::format -> String::new()
#[kani::proof]
#[kani::unwind(10)]
#[kani::stub(std::fmt::format, fmt_stub_sl)]
fn c02_l2_slice_load() {
    let mut env = sl_env();
    env.sl.l2.hit = [kani::any(), kani::any()];
    env.sl.l1e = kani::any();
    let guest: u64 = kani::any();
    kani::assume(guest < (1u64 << 56));
    let split = SplitGuestOffset(guest);

    let r = env.seg_sl_get_l2(&split);

    let slice_entries_bits = L2SB - 3;
    let key = ((guest >> CB) >> slice_entries_bits) as usize;
    let off = ((spec::l2_index(guest, CB) >> slice_entries_bits) << L2SB) as u64;
    assert!(env.sl.rb.gets.get() == 0);
    assert!(env.sl.l2.keys[0].get() == key);
    if env.sl.l2.hit[0] {
        assert!(env.nrec.get() == 0 && env.sl.l2.gets.get() == 1);
        match &r {
            Ok(t) => assert!(t.key == key && t.which == KWhich::L2),
            Err(_) => assert!(false),
        }
    } else if env.sl.fail_l1 {
        assert!(r.is_err() && env.count(K_GET_L1) == 1 && env.nrec.get() == 1 && env.sl.l2.gets.get() == 1);
    } else {
        assert!(env.count(K_GET_L1) == 1 && env.count(K_ADD_SLICE) == 1);
        assert!(env.first(K_GET_L1) < env.first(K_ADD_SLICE));
        let a = env.get_rec(env.first(K_ADD_SLICE));
        assert!(a.flags & 3 == KWhich::L2 as u32 && a.buf_start == key && a.off == off);
        assert!(a.len == 1usize << L2SB && (a.flags >> 2) as usize == (1usize << L2SB) / 8);
        let l1e: L1Entry = unsafe { core::mem::transmute::<u64, L1Entry>(env.sl.l1e) };
        assert!(a.entry == l1e.get_value());
        let evicted = !env.sl.fail_add && env.sl.evict.is_some();
        if evicted {
            // refcounts first, then the evicted mapping slices
            assert!(env.count(K_FLUSH_REFCOUNT) == 1);
            assert!(env.first(K_ADD_SLICE) < env.first(K_FLUSH_REFCOUNT));
            if env.sl.fail_flush_rc {
                assert!(env.count(K_FLUSH_ENTRIES) == 0);
            } else {
                assert!(env.count(K_FLUSH_ENTRIES) == 1);
                let f = env.get_rec(env.first(K_FLUSH_ENTRIES));
                assert!(Some(f.len) == env.sl.evict && env.first(K_FLUSH_REFCOUNT) < env.first(K_FLUSH_ENTRIES));
            }
        } else {
            assert!(env.count(K_FLUSH_ENTRIES) == 0 && env.count(K_FLUSH_REFCOUNT) == 0);
        }
        let failed = env.sl.fail_add || (evicted && (env.sl.fail_flush_rc || env.sl.fail_flush));
        if failed {
            assert!(r.is_err() && env.sl.l2.gets.get() == 1);
        } else {
            assert!(env.sl.l2.gets.get() == 2 && env.sl.l2.keys[1].get() == key);
            match &r {
                Ok(t) => assert!(env.sl.l2.hit[1] && t.key == key && t.which == KWhich::L2),
                Err(_) => assert!(!env.sl.l2.hit[1]),
            }
        }
    }
    kani::cover!(r.is_ok() && !env.sl.l2.hit[0] && env.sl.evict.is_some());
    kani::cover!(r.is_err() && !env.sl.fail_add && !env.sl.fail_flush_rc && env.sl.fail_flush && !env.sl.fail_l1);
    kani::cover!(off != 0 && key > 1000);
    core::mem::forget(r);
    core::mem::forget(env);
}
