// Harness module injected as a child of `crate::dev::alloc` (sees HostCluster).
// @module-needs header
#![allow(dead_code, unused_imports)]
use super::*;
use crate::meta::verif_header::{any_geo, fmt_stub, info_of};
use crate::verif_spec as spec;

// @harness c15_host_cluster
// @props C15 C08 C03 C02
// @tier quick
// @cost 39
// @timeout 600
// @desc every method of HostCluster on the geometry derived by the real Qcow2Info::new: rt_index / rb_index equal the spec's refcount index formulas; slice key / index / byte offset are quotient / remainder by the slice length; the slice host range is [start, start + slice_entries*cluster_size), aligned, contains the cluster, lies inside the refblock's host range; cluster_off_from_slice is the inverse of rb_slice_index
// @bounds host offset: all u64 < 2^63; cluster_bits 9..=21, refcount_order 0..=6, slice bits block..cluster all symbolic
// @funcs HostCluster::{rt_index,rb_index,rb_slice_index,rb_slice_key,rb_slice_host_start,rb_slice_host_end,rb_host_start,rb_host_end,rb_slice_off_in_table,cluster_off_from_slice} Qcow2Info::rb_slice_entries Qcow2Info::rb_entries
// @stub alloc::fmt::format -> String::new()
#[kani::proof]
#[kani::stub(std::fmt::format, fmt_stub)]
fn c15_host_cluster() {
    let g = any_geo();
    let info = info_of(&g, kani::any(), false, false, false);
    let a: u64 = kani::any();
    kani::assume(a >> 63 == 0);
    let c = HostCluster(a);
    let (cb, order) = (g.cb, g.order);
    let se_bits = g.rbsb as u32 + 3 - order; // log2(refcounts per slice)
    let cs = spec::cluster_size(cb);
    assert!(info.rb_entries() as u64 == spec::rb_entries(cb, order));
    assert!(info.rb_slice_entries() as u64 == 1u64 << se_bits);
    assert!(c.rt_index(&info) as u64 == spec::rt_index(a, cb, order));
    assert!(c.rb_index(&info) as u64 == spec::rb_index(a, cb, order));
    let rbi = spec::rb_index(a, cb, order);
    assert!(c.rb_slice_index(&info) as u64 == rbi & ((1u64 << se_bits) - 1));
    assert!(c.rb_slice_key(&info) as u64 == (a >> cb) >> se_bits);
    assert!(c.rb_slice_off_in_table(&info) as u64 == (rbi >> se_bits) << g.rbsb);
    assert!((c.rb_slice_off_in_table(&info) as u64) < cs);
    // host range described by the slice
    let span = cs << se_bits;
    let start = c.rb_slice_host_start(&info);
    assert!(start == a & !(span - 1));
    assert!(c.rb_slice_host_end(&info) == start + span);
    assert!(start <= a && a < c.rb_slice_host_end(&info));
    // ... lies inside the refblock's host range
    let rb_span = cs << spec::rb_bits(cb, order);
    assert!(c.rb_host_start(&info) == a & !(rb_span - 1));
    assert!(c.rb_host_end(&info) == c.rb_host_start(&info) + rb_span);
    assert!(c.rb_host_start(&info) <= start && c.rb_slice_host_end(&info) <= c.rb_host_end(&info));
    // inverse: the cluster whose counter sits at slice index i is start + i*cs
    let i: usize = kani::any();
    kani::assume((i as u64) < (1u64 << se_bits));
    let off = c.cluster_off_from_slice(&info, i);
    assert!(off == start + (i as u64) * cs);
    let d = HostCluster(off);
    assert!(d.rb_slice_index(&info) == i && d.rb_slice_key(&info) == c.rb_slice_key(&info));
    // self reference of a new refcount block: the block describing rt_index sits at the first
    // cluster it covers, i.e. at index 0 of its own first slice
    let rti = c.rt_index(&info) as u64;
    let rb_off = rti << (info.rb_index_shift + info.cluster_shift);
    let r = HostCluster(rb_off);
    assert!(r.rt_index(&info) as u64 == rti && r.rb_index(&info) == 0 && r.rb_slice_index(&info) == 0);
    assert!(rb_off == c.rb_host_start(&info));
    kani::cover!(cb == 21 && order == 4 && g.rbsb == 12, "2 MiB clusters, 16-bit refcounts, 4 KiB slices");
    kani::cover!(cb == 9 && order == 6);
    kani::cover!(se_bits + cb >= 32, "slice spans >= 4 GiB of host space");
    kani::cover!(g.rbsb as u32 == cb);
    core::mem::forget(info);
}
