// Harness over flush_cache_entries lifted from src/dev/cache.rs; child of `crate::dev`.
// @module-needs env header seg:FC
#![allow(dead_code, unused_imports)]
use super::*;
use crate::dev::verif_env::*;
use crate::meta::verif_header::{any_geo, info_of, mk_info, Geo};
use crate::meta::{L2Table, Table};
use crate::verif_spec as spec;
use std::cell::Cell;
use std::rc::Rc;

fn fmt_stub2(_a: core::fmt::Arguments<'_>) -> String {
    String::new()
}
fn eprint_stub(_a: core::fmt::Arguments<'_>) {}

macro_rules! flush_entries {
    ($name:ident, $same:expr, $d0:expr, $d1:expr, $state:expr) => {
#[kani::proof]
#[kani::unwind(10)]
#[kani::stub(std::fmt::format, fmt_stub2)]
#[kani::stub(std::io::_eprint, eprint_stub)]
fn $name() {
    let cb = 16u32;
    let mut env = KEnv::new(mk_info(cb, 4, 1u64 << 40, 9, Some((9, 1024)), Some((9, 1024)), false, false, false));
    let cluster: u64 = 0x50000;
    let same: bool = $same;
    let off0 = cluster + 512;
    let off1 = if same { cluster + 2048 } else { 0x90000 };
    let h0 = KHandle::new(L2Table::new(Some(off0), 512, cb as usize));
    let h1 = KHandle::new(L2Table::new(Some(off1), 512, cb as usize));
    let d0: bool = $d0;
    let d1: bool = $d1;
    h0.set_dirty(d0);
    h1.set_dirty(d1);
    let state: u8 = $state; // 0 absent, 1 new & not zeroed, 2 handled
    env.new_cluster = KNewCluster { key: cluster >> cb, present: Cell::new(state != 0), flag: KLock::new(state == 2) };
    let mut v = KVec::new();
    v.push((1usize, &h0));
    v.push((2usize, &h1));
    let r = env.seg_fc(v);
    assert!(r.is_ok());
    assert!(!h0.is_dirty() && !h1.is_dirty());
    let n = env.nrec.get();
    let touches_cluster = d0 || (d1 && same);
    let zeroed = state == 1 && touches_cluster;
    let writes = d0 as usize + d1 as usize;
    assert!(n == writes + zeroed as usize);
    let mut k = 0;
    if zeroed {
        let z = env.get_rec(0);
        assert!(z.kind == K_FALLOC && z.off == cluster && z.len == 1 << cb);
        assert!(*env.new_cluster.flag.kwrite());
        assert!(!env.new_cluster.present.get());
        k = 1;
    } else {
        assert!(env.new_cluster.present.get() == (state != 0));
    }
    if d0 {
        let w = env.get_rec(k);
        assert!(w.kind == K_BACKEND_WRITE && w.off == off0 && w.len == 512);
        k += 1;
    }
    if d1 {
        let w = env.get_rec(k);
        assert!(w.kind == K_BACKEND_WRITE && w.off == off1 && w.len == 512);
    }
    kani::cover!(true);
    core::mem::forget(r);
    core::mem::forget(env);
}
    };
}

// @harness c03_flush_entries_new_shared
// @props C03 C16 C18 C17 C02 C04
// @tier quick
// @cost 12
// @timeout 1500
// @needs FC
// @desc the whole body of flush_cache_entries (locks, the new-cluster registry and the backend shimmed; lazily created requests run by join_all) on two cached L2 slices: every dirty slice is written back whole, once, at its own host offset (block aligned) and its dirty flag is cleared; a clean slice is neither written nor changed; if the cluster the slices live in is registered as new and not yet zeroed it is zeroed exactly ONCE (whole cluster, cluster aligned) BEFORE any slice is written into it, its flag flips and it is unregistered; a cluster that is not new, or already handled, is never zeroed
// @bounds scenario: two dirty slices in ONE new cluster; two 512-byte slices, in the same 64 KiB cluster or in two different ones; the scenario (same / different cluster, which slices are dirty, registry state absent / new / handled) is concrete per instance -- symbolic flags make the heap-backed collections of the function intractable; backend succeeds
// @funcs Qcow2Dev::flush_cache_entries (whole body)
// @stub alloc::fmt::format -> String::new()
// @stub std::io::_eprint -> no-op
flush_entries!(c03_flush_entries_new_shared, true, true, true, 1);

// @harness c03_flush_entries_handled
// @props C03 C16 C18 C17 C02 C04
// @tier quick
// @cost 11
// @timeout 1500
// @needs FC
// @desc the whole body of flush_cache_entries (locks, the new-cluster registry and the backend shimmed; lazily created requests run by join_all) on two cached L2 slices: every dirty slice is written back whole, once, at its own host offset (block aligned) and its dirty flag is cleared; a clean slice is neither written nor changed; if the cluster the slices live in is registered as new and not yet zeroed it is zeroed exactly ONCE (whole cluster, cluster aligned) BEFORE any slice is written into it, its flag flips and it is unregistered; a cluster that is not new, or already handled, is never zeroed
// @bounds scenario: two dirty slices in a cluster someone else already zeroed; two 512-byte slices, in the same 64 KiB cluster or in two different ones; the scenario (same / different cluster, which slices are dirty, registry state absent / new / handled) is concrete per instance -- symbolic flags make the heap-backed collections of the function intractable; backend succeeds
// @funcs Qcow2Dev::flush_cache_entries (whole body)
// @stub alloc::fmt::format -> String::new()
// @stub std::io::_eprint -> no-op
flush_entries!(c03_flush_entries_handled, true, true, true, 2);

// @harness c03_flush_entries_plain
// @props C03 C16 C18 C17 C02 C04
// @tier quick
// @cost 10
// @timeout 1500
// @needs FC
// @desc the whole body of flush_cache_entries (locks, the new-cluster registry and the backend shimmed; lazily created requests run by join_all) on two cached L2 slices: every dirty slice is written back whole, once, at its own host offset (block aligned) and its dirty flag is cleared; a clean slice is neither written nor changed; if the cluster the slices live in is registered as new and not yet zeroed it is zeroed exactly ONCE (whole cluster, cluster aligned) BEFORE any slice is written into it, its flag flips and it is unregistered; a cluster that is not new, or already handled, is never zeroed
// @bounds scenario: two dirty slices in an old cluster; two 512-byte slices, in the same 64 KiB cluster or in two different ones; the scenario (same / different cluster, which slices are dirty, registry state absent / new / handled) is concrete per instance -- symbolic flags make the heap-backed collections of the function intractable; backend succeeds
// @funcs Qcow2Dev::flush_cache_entries (whole body)
// @stub alloc::fmt::format -> String::new()
// @stub std::io::_eprint -> no-op
flush_entries!(c03_flush_entries_plain, true, true, true, 0);

// @harness c03_flush_entries_split
// @props C03 C16 C18 C17 C02 C04
// @tier quick
// @cost 11
// @timeout 1500
// @needs FC
// @desc the whole body of flush_cache_entries (locks, the new-cluster registry and the backend shimmed; lazily created requests run by join_all) on two cached L2 slices: every dirty slice is written back whole, once, at its own host offset (block aligned) and its dirty flag is cleared; a clean slice is neither written nor changed; if the cluster the slices live in is registered as new and not yet zeroed it is zeroed exactly ONCE (whole cluster, cluster aligned) BEFORE any slice is written into it, its flag flips and it is unregistered; a cluster that is not new, or already handled, is never zeroed
// @bounds scenario: dirty slices in two clusters, only the first is new; two 512-byte slices, in the same 64 KiB cluster or in two different ones; the scenario (same / different cluster, which slices are dirty, registry state absent / new / handled) is concrete per instance -- symbolic flags make the heap-backed collections of the function intractable; backend succeeds
// @funcs Qcow2Dev::flush_cache_entries (whole body)
// @stub alloc::fmt::format -> String::new()
// @stub std::io::_eprint -> no-op
flush_entries!(c03_flush_entries_split, false, true, true, 1);

// @harness c03_flush_entries_one_dirty
// @props C03 C16 C18 C17 C02 C04
// @tier quick
// @cost 10
// @timeout 1500
// @needs FC
// @desc the whole body of flush_cache_entries (locks, the new-cluster registry and the backend shimmed; lazily created requests run by join_all) on two cached L2 slices: every dirty slice is written back whole, once, at its own host offset (block aligned) and its dirty flag is cleared; a clean slice is neither written nor changed; if the cluster the slices live in is registered as new and not yet zeroed it is zeroed exactly ONCE (whole cluster, cluster aligned) BEFORE any slice is written into it, its flag flips and it is unregistered; a cluster that is not new, or already handled, is never zeroed
// @bounds scenario: only the second slice dirty, in a new cluster; two 512-byte slices, in the same 64 KiB cluster or in two different ones; the scenario (same / different cluster, which slices are dirty, registry state absent / new / handled) is concrete per instance -- symbolic flags make the heap-backed collections of the function intractable; backend succeeds
// @funcs Qcow2Dev::flush_cache_entries (whole body)
// @stub alloc::fmt::format -> String::new()
// @stub std::io::_eprint -> no-op
flush_entries!(c03_flush_entries_one_dirty, true, false, true, 1);

// @harness c03_flush_entries_clean
// @props C03 C16 C18 C17 C02 C04
// @tier quick
// @cost 5
// @timeout 1500
// @needs FC
// @desc the whole body of flush_cache_entries (locks, the new-cluster registry and the backend shimmed; lazily created requests run by join_all) on two cached L2 slices: every dirty slice is written back whole, once, at its own host offset (block aligned) and its dirty flag is cleared; a clean slice is neither written nor changed; if the cluster the slices live in is registered as new and not yet zeroed it is zeroed exactly ONCE (whole cluster, cluster aligned) BEFORE any slice is written into it, its flag flips and it is unregistered; a cluster that is not new, or already handled, is never zeroed
// @bounds scenario: nothing dirty; two 512-byte slices, in the same 64 KiB cluster or in two different ones; the scenario (same / different cluster, which slices are dirty, registry state absent / new / handled) is concrete per instance -- symbolic flags make the heap-backed collections of the function intractable; backend succeeds
// @funcs Qcow2Dev::flush_cache_entries (whole body)
// @stub alloc::fmt::format -> String::new()
// @stub std::io::_eprint -> no-op
flush_entries!(c03_flush_entries_clean, true, false, false, 1);

// @harness c17_flush_entries_failure
// @props C17 C18
// @tier quick
// @cost 8
// @timeout 900
// @needs FC
// @desc flush_cache_entries (whole body) when the backend fails the slice writes: the error is returned and the slices that were being written back are STILL marked dirty, so that repeating the flush once the backend works again writes them -- their content must not silently stay in memory only
// @bounds two dirty 512-byte slices in one (old) 64 KiB cluster; every slice write fails
// @funcs Qcow2Dev::flush_cache_entries (whole body, failure arm)
// @stub alloc::fmt::format -> String::new()
// @stub std::io::_eprint -> no-op
#[kani::proof]
#[kani::unwind(10)]
#[kani::stub(std::fmt::format, fmt_stub2)]
#[kani::stub(std::io::_eprint, eprint_stub)]
fn c17_flush_entries_failure() {
    let cb = 16u32;
    let env = KEnv::new(mk_info(cb, 4, 1u64 << 40, 9, Some((9, 1024)), Some((9, 1024)), false, false, false));
    let h0 = KHandle::new(L2Table::new(Some(0x50200), 512, cb as usize));
    let h1 = KHandle::new(L2Table::new(Some(0x50800), 512, cb as usize));
    h0.set_dirty(true);
    h1.set_dirty(true);
    env.fail_write.set(true);
    let mut v = KVec::new();
    v.push((1usize, &h0));
    v.push((2usize, &h1));
    let r = env.seg_fc(v);
    assert!(r.is_err());
    assert!(h0.is_dirty() && h1.is_dirty());
    kani::cover!(true);
    core::mem::forget(r);
    core::mem::forget(env);
}
