// Harness over do_write_data_file lifted from src/dev/write.rs; child of `crate::dev`.
// @module-needs env header seg:WD
#![allow(dead_code, unused_imports)]
use super::*;
use crate::dev::verif_env::*;
use crate::meta::verif_header::{any_geo, info_of, mk_info, Geo};
use crate::meta::{Mapping, MappingSource};
use crate::verif_spec as spec;
use std::cell::Cell;

fn fmt_stub2(_a: core::fmt::Arguments<'_>) -> String {
    String::new()
}

// @harness c01_write_data_zero_once
// @props C01 C10 C16 C04
// @tier quick
// @cost 26
// @timeout 900
// @needs WD
// @desc the whole body of do_write_data_file (backend, COW helpers and the new-cluster registry shimmed; lazily created futures modelled as closures): a write into a freshly allocated cluster first zeroes the WHOLE cluster (one cluster-aligned, cluster-sized request), exactly once -- the registry flag flips so nobody zeroes again -- and only then writes data; with a copy-on-write source the whole-cluster merge runs after the zeroing, the cluster is unregistered, the data is synced, and the caller's bytes are not written a second time; a cluster that is not (or no longer) registered as new is written directly, never zeroed; the data request goes to host cluster + in-cluster offset with the caller's length
// @bounds one 512-byte block written at any guest offset < 2^56 (block aligned); host cluster any aligned offset < 2^56; registry state absent / new / already-handled symbolic; COW source none / compressed / backing symbolic; full symbolic geometry
// @funcs Qcow2Dev::do_write_data_file (whole body)
// @stub alloc::fmt::format -> String::new()
#[kani::proof]
#[kani::unwind(10)]
#[kani::stub(std::fmt::format, fmt_stub2)]
fn c01_write_data_zero_once() {
    let g = any_geo();
    let mut env = KEnv::new(info_of(&g, 1u64 << 62, false, false, true));
    let cs = 1u64 << g.cb;
    let host: u64 = kani::any();
    kani::assume(host != 0 && host & (cs - 1) == 0 && host >> 56 == 0);
    let virt: u64 = kani::any();
    kani::assume(virt >> 56 == 0 && virt & 511 == 0);
    let off_in = virt & (cs - 1);
    kani::assume(off_in + 512 <= cs);
    let state: u8 = kani::any(); // 0 absent, 1 registered & untouched, 2 registered & handled
    kani::assume(state <= 2);
    env.new_cluster = KNewCluster { key: host >> g.cb, present: Cell::new(state != 0), flag: KLock::new(state == 2) };
    let cow: u8 = kani::any(); // 0 none, 1 compressed, 2 backing
    kani::assume(cow <= 2);
    let m = Mapping { source: MappingSource::DataFile, cluster_offset: Some(host), compressed_length: None, copied: true };
    let cm = Mapping {
        source: if cow == 1 { MappingSource::Compressed } else { MappingSource::Backing },
        cluster_offset: Some(0x7000),
        compressed_length: if cow == 1 { Some(600) } else { None },
        copied: false,
    };
    let data = [0u8; 512];
    let r = env.seg_wd(virt, &m, if cow == 0 { None } else { Some(&cm) }, &data);
    assert!(r.is_ok());
    let n = env.nrec.get();
    if state != 1 {
        // not new (any more): written directly, never zeroed
        assert!(n == 1);
        let w = env.get_rec(0);
        assert!(w.kind == K_BACKEND_WRITE && w.off == host + off_in && w.len == 512);
        assert!(*env.new_cluster.flag.kwrite() == (state == 2));
    } else {
        // zero the whole cluster first, exactly once
        let z = env.get_rec(0);
        assert!(z.kind == K_FALLOC && z.off == host && z.len as u64 == cs);
        assert!(env.count(K_FALLOC) == 1);
        assert!(*env.new_cluster.flag.kwrite());
        if cow == 0 {
            assert!(n == 3);
            let c = env.get_rec(1);
            assert!(c.kind == K_CLEARNEW && c.off == host >> g.cb);
            let w = env.get_rec(2);
            assert!(w.kind == K_BACKEND_WRITE && w.off == host + off_in && w.len == 512);
        } else {
            // merge of the whole cluster, unregister, sync; the bytes are not written twice
            assert!(n == 4);
            let c = env.get_rec(1);
            assert!(c.kind == K_LEAF_COW && c.entry == host && c.off == off_in && c.len == 512);
            assert!(c.flags == cow as u32);
            if cow == 2 {
                assert!(c.buf_start as u64 == virt);
            }
            assert!(env.get_rec(2).kind == K_CLEARNEW && env.get_rec(2).off == host >> g.cb);
            let f = env.get_rec(3);
            assert!(f.kind == K_FSYNC && f.off == host && f.len as u64 == cs);
            assert!(env.count(K_BACKEND_WRITE) == 0);
        }
    }
    kani::cover!(state == 1 && cow == 0);
    kani::cover!(state == 1 && cow == 1);
    kani::cover!(state == 1 && cow == 2);
    kani::cover!(state == 2);
    kani::cover!(state == 0);
    core::mem::forget(r);
    core::mem::forget(m);
    core::mem::forget(cm);
    core::mem::forget(env);
}
