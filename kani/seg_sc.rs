// Harnesses over shrink_caches and flush_cache (lifted from src/dev/cache.rs); child of `crate::dev`.
// @module-needs env header seg:SC
#![allow(dead_code, unused_imports)]
use super::*;
use crate::dev::verif_env::*;
use crate::meta::verif_header::mk_info;
use std::cell::Cell;

fn fmt_stub_sc(_a: core::fmt::Arguments<'_>) -> String {
    String::new()
}

// @harness c02_shrink_and_flush_cache
// @props C02 C04 C17
// @tier quick
// @cost 5
// @timeout 600
// @needs SC
// @desc whole shrink_caches and flush_cache (lifted): shrink_caches flushes the metadata FIRST and shrinks both caches only after that flush succeeded (a failed flush returns the error and drops nothing, so no dirty slice can be discarded unwritten); flush_cache asks the cache for the dirty entries of exactly the key range it was given, hands ALL of them to flush_cache_entries once, reports true iff there were any, and returns a write-back error
// @bounds any key range, any number of dirty entries (incl. none), flush / write-back succeed or fail
// @assume flush_meta, flush_cache_entries by contract here (bodies: c18_flush_meta_driver, c03_flush_entries_*); the LRU cache (HashMap) is replaced by a stand-in answering get_dirty_entries / shrink
// @funcs Qcow2Dev::shrink_caches Qcow2Dev::flush_cache
// @stub alloc::fmt::format -> String::new()
#[kani::proof]
#[kani::unwind(10)]
#[kani::stub(std::fmt::format, fmt_stub_sc)]
fn c02_shrink_and_flush_cache() {
    let info = mk_info(16, 4, 1u64 << 40, 9, Some((12, 8192)), Some((9, 1024)), false, false, false);
    let mut env = KEnv::new(info);
    let fail: bool = kani::any();
    let which: bool = kani::any();
    if which {
        env.fail_write.set(fail);
        let r = env.seg_sc_shrink();
        assert!(env.get_rec(0).kind == K_FLUSH_MAPPING);
        if fail {
            assert!(r.is_err() && env.nrec.get() == 1 && env.count(K_SHRINK) == 0);
        } else {
            assert!(r.is_ok() && env.nrec.get() == 3 && env.count(K_SHRINK) == 2);
            let (a, b) = (env.get_rec(1), env.get_rec(2));
            assert!(a.kind == K_SHRINK && b.kind == K_SHRINK && a.flags != b.flags);
        }
        kani::cover!(fail);
        kani::cover!(!fail);
        core::mem::forget(r);
    } else {
        env.sl.fail_flush = fail;
        let n: usize = kani::any();
        let (start, end): (usize, usize) = (kani::any(), kani::any());
        let set = KDirtySet { n, asked: Cell::new((usize::MAX, usize::MAX)) };
        let r = env.seg_sc_flush_cache(&set, start, end);
        assert!(set.asked.get() == (start, end));
        if n == 0 {
            assert!(env.nrec.get() == 0);
            match &r { Ok(x) => assert!(!*x), Err(_) => assert!(false) }
        } else {
            assert!(env.nrec.get() == 1);
            let f = env.get_rec(0);
            assert!(f.kind == K_FLUSH_ENTRIES && f.len == n);
            if fail {
                assert!(r.is_err());
            } else {
                match &r { Ok(x) => assert!(*x), Err(_) => assert!(false) }
            }
        }
        kani::cover!(n > 1 && !fail);
        kani::cover!(n == 0);
        core::mem::forget(r);
    }
    core::mem::forget(env);
}
