// Harnesses over segments lifted from src/dev/read.rs::__read_at; child of `crate::dev`.
// @module-needs env header seg:R0 seg:RF
#![allow(dead_code, unused_imports)]
use super::*;
use crate::dev::verif_env::*;
use crate::meta::verif_header::{any_geo, info_of, Geo};
use crate::meta::L2Entry;
use crate::verif_spec as spec;

fn fmt_stub2(_a: core::fmt::Arguments<'_>) -> String {
    String::new()
}

// @harness c13_read_validation
// @props C13 C10
// @tier quick
// @cost 19
// @timeout 900
// @needs R0
// @desc the complete argument validation of read_at (everything before its first await, lifted verbatim): for ALL offsets and lengths: offset >= virtual size => Err (Ok(len) on a backing device); len == 0 => Ok(0); unaligned length or offset => Err; a read crossing the end proceeds with the count clamped to (vsize-offset) rounded down to the block size; no arithmetic overflow or panic for any argument value
// @bounds offset: all u64; len: all usize <= isize::MAX; virtual size: all u64 <= 2^63; full symbolic geometry; backing-device flag symbolic
// @funcs Qcow2Dev::__read_at (prologue) Qcow2Info::{virtual_size,is_back_file,cluster_bits}
// @stub alloc::fmt::format -> String::new()
// @assume virtual size <= 2^63
#[kani::proof]
#[kani::stub(std::fmt::format, fmt_stub2)]
fn c13_read_validation() {
    let g = any_geo();
    let vsize: u64 = kani::any();
    kani::assume(vsize <= 1u64 << 63);
    let back_dev: bool = kani::any();
    let env = KEnv::new(info_of(&g, vsize, back_dev, back_dev, false));
    let offset: u64 = kani::any();
    let len: usize = kani::any();
    kani::assume(len <= isize::MAX as usize);
    let r = env.seg_r0(KBuf::new(len), offset);
    let bs = 1u64 << g.bs;
    if offset >= vsize {
        if back_dev {
            assert!(matches!(r, Ok(n) if n == len));
        } else {
            assert!(r.is_err());
        }
        assert!(!env.passed.get());
    } else if len == 0 {
        assert!(matches!(r, Ok(0)) && !env.passed.get());
    } else if (len as u64) % bs != 0 || offset % bs != 0 {
        assert!(r.is_err() && !env.passed.get());
    } else {
        let want = if offset + len as u64 > vsize { (vsize - offset) & !(bs - 1) } else { len as u64 };
        let extra = if back_dev { len as u64 - want } else { 0 };
        assert!(r.is_ok());
        if env.passed.get() {
            let o = env.out.get();
            assert!(want > 0);
            assert!(o[1] == want);
            assert!(o[3] == extra);
            assert!(o[2] == offset);
            // the buffer handed on is exactly the clamped range
            assert!(o[4] == want);
            let single = (offset >> g.cb) == ((offset + want - 1) >> g.cb);
            assert!((o[0] != 0) == single);
        } else {
            // nothing left to read inside the image: the documented clamped count
            assert!(want == 0 && matches!(r, Ok(n) if n as u64 == extra));
        }
        kani::cover!(want < len as u64 && want > 0, "clamped read");
        kani::cover!(want == len as u64);
        kani::cover!(want == 0, "less than one block left before the end");
    }
    kani::cover!(r.is_err());
    kani::cover!(offset >= vsize && back_dev);
    core::mem::forget(r);
    core::mem::forget(env);
}

macro_rules! c01_read_split_h {
    ($name:ident, $span:expr) => {
#[kani::proof]
#[kani::unwind(10)]
#[kani::stub(std::fmt::format, fmt_stub2)]
fn $name() {
    let g = any_geo();
    let vsize: u64 = kani::any();
    kani::assume(vsize <= 1u64 << 63);
    let mut env = KEnv::new(info_of(&g, vsize, false, false, false));
    let ents: [u64; MAX_REC] = kani::any();
    let mut i = 0;
    while i < MAX_REC {
        env.entries[i] = L2Entry(ents[i]);
        i += 1;
    }
    let offset: u64 = kani::any();
    let len: usize = kani::any();
    let cs = 1u64 << g.cb;
    kani::assume(len >= 1 && (len as u64) <= $span * cs + cs / 2);
    let r = env.seg_rf(KBuf::new(len), offset);
    let bs = 1u64 << g.bs;
    let valid = (len as u64) % bs == 0 && offset % bs == 0 && offset < vsize;
    assert!(r.is_ok() == valid);
    let n = env.nrec.get();
    if !valid {
        assert!(n == 0);
    } else {
        // documented count: the whole length, or the in-image part rounded down to a block
        let want = if offset + len as u64 > vsize { (vsize - offset) & !(bs - 1) } else { len as u64 };
        assert!(matches!(r, Ok(x) if x as u64 == want));
        let mut pos = offset;
        let mut bpos = 0usize;
        let first = offset >> g.cb;
        let mut k = 0;
        while k < 7 {
            if k < n {
                let w = env.get_rec(k);
                assert!(w.kind == K_READ);
                assert!(w.off == pos && w.buf_start == bpos && w.len > 0);
                assert!(w.off >> g.cb == (w.off + w.len as u64 - 1) >> g.cb);
                assert!(w.off >> g.cb == first + k as u64);
                assert!(w.entry == ents[k]);
                pos += w.len as u64;
                bpos += w.len;
            }
            k += 1;
        }
        // exactly the (clamped) range was read: nothing beyond the end of the image
        assert!(pos == offset + want && bpos as u64 == want);
        kani::cover!(n as u64 == $span + 1 && offset & (cs - 1) != 0);
        kani::cover!(n == 1 && want == len as u64);
        kani::cover!(want < len as u64 && want > 0, "read crossing the end");
        kani::cover!(n == 2 && len as u64 <= cs);
    }
    kani::cover!(!valid);
    core::mem::forget(r);
    core::mem::forget(env);
}
    };
}

// @harness c01_read_split
// @props C01 C13 C16
// @tier quick
// @cost 152
// @timeout 1200
// @needs RF
// @desc the whole body of __read_at with its awaited callees shimmed (backend completes every request): a rejected request issues nothing; an accepted in-bounds request returns exactly the requested length and is cut into pieces that, in order, exactly partition [offset, offset+len), none crossing a cluster boundary, piece k carrying the L2 entry of the k-th guest cluster and the k-th consecutive sub-range of the caller's buffer; a request crossing the end of the image returns the clamped count and touches nothing beyond it
// @bounds offset: all u64; len: all values spanning <= 4 clusters; virtual size <= 2^63; full symbolic geometry; L2 entries arbitrary; top-level (non-backing) device
// @funcs Qcow2Dev::__read_at (whole body; get_l2_entry, get_l2_entries and do_read replaced by recorders)
// @stub alloc::fmt::format -> String::new()
c01_read_split_h!(c01_read_split, 3);

// @harness c01_read_split_6
// @props C01 C13 C16
// @tier thorough
// @cost 400
// @timeout 3000
// @needs RF
// @desc the whole body of __read_at with its awaited callees shimmed (backend completes every request): a rejected request issues nothing; an accepted in-bounds request returns exactly the requested length and is cut into pieces that, in order, exactly partition [offset, offset+len), none crossing a cluster boundary, piece k carrying the L2 entry of the k-th guest cluster and the k-th consecutive sub-range of the caller's buffer; a request crossing the end of the image returns the clamped count and touches nothing beyond it
// @bounds offset: all u64; len: all values spanning <= 6 clusters; virtual size <= 2^63; full symbolic geometry; L2 entries arbitrary; top-level (non-backing) device
// @funcs Qcow2Dev::__read_at (whole body; get_l2_entry, get_l2_entries and do_read replaced by recorders)
// @stub alloc::fmt::format -> String::new()
c01_read_split_h!(c01_read_split_6, 5);
