// Harness module injected as a child of `crate::dev::info`.
// @module-needs header
#![allow(dead_code, unused_imports)]
use super::*;
use crate::meta::verif_header::{any_geo, fmt_stub, info_of, mk_header};
use crate::verif_spec as spec;

fn check_fields(info: &Qcow2Info, cb: u32, order: u32, bs: u8, l2sb: u8, rbsb: u8, size: u64) {
    assert!(info.cluster_shift as u32 == cb && info.cluster_bits() as u32 == cb);
    assert!(info.cluster_size() as u64 == spec::cluster_size(cb));
    assert!(info.in_cluster_offset_mask as u64 == spec::cluster_size(cb) - 1);
    assert!(info.l2_entries() as u64 == spec::l2_entries(cb));
    assert!(info.l2_index_mask as u64 == spec::l2_entries(cb) - 1);
    assert!(info.l2_index_shift as u32 == spec::l2_bits(cb));
    assert!(info.rb_entries() as u64 == spec::rb_entries(cb, order));
    assert!(info.rb_index_mask as u64 == spec::rb_entries(cb, order) - 1);
    assert!(info.rb_index_shift as u32 == spec::rb_bits(cb, order));
    assert!(info.refcount_order() as u32 == order);
    assert!(info.block_size_shift == bs);
    // slices: a power-of-two part of a cluster, at least one block
    assert!(info.l2_slice_bits == l2sb && info.rb_slice_bits == rbsb);
    assert!(info.l2_slice_bits as u32 <= cb && info.rb_slice_bits as u32 <= cb);
    assert!(info.l2_slice_entries as u64 == 1u64 << (l2sb - 3));
    assert!(info.l2_slice_index_shift == l2sb - 3);
    assert!(info.rb_slice_entries() as u64 == 1u64 << (rbsb as u32 + 3 - order));
    assert!(info.rb_slice_index_shift as u32 == rbsb as u32 + 3 - order);
    assert!(info.l2_cache_cnt >= 2 && info.rb_cache_cnt >= 2);
    assert!(info.virtual_size() == size);
}

// @harness c09_info_custom
// @props C09 C14 C15 C10
// @tier quick
// @cost 13
// @timeout 600
// @desc Qcow2Info::new with every legal custom cache parameter: no panic/overflow; every derived shift, mask and entry count equals the spec formula (l2_entries = cluster_size/8, refcount_block_entries = cluster_size*8/refcount_bits, slice entry counts), slices fit in a cluster, >= 2 cache slices, flags reflect read-only/backing
// @bounds cluster_bits 9..=21, refcount_order 0..=6, block bits 9..=12, slice bits block..cluster, cache sizes 2..=2^20 slices, virtual size any u64: all symbolic
// @funcs Qcow2Info::new cache_geometry Qcow2DevParams::new Qcow2DevParams::mark_backing_dev
// @stub alloc::fmt::format -> String::new()
#[kani::proof]
#[kani::stub(alloc::fmt::format, fmt_stub)]
fn c09_info_custom() {
    let g = any_geo();
    let size: u64 = kani::any();
    let n1: usize = kani::any();
    let n2: usize = kani::any();
    kani::assume(n1 >= 2 && n1 <= (1 << 20) && n2 >= 2 && n2 <= (1 << 20));
    let ro: bool = kani::any();
    let back_dev: bool = kani::any();
    let has_back: bool = kani::any();
    let h = mk_header(g.cb, g.order, size, 1, 1, has_back);
    let mut p = Qcow2DevParams::new(g.bs, Some((g.rbsb, n2 << g.rbsb)), Some((g.l2sb, n1 << g.l2sb)), ro, false);
    if back_dev {
        p.mark_backing_dev(Some(true));
    }
    let r = Qcow2Info::new(&h, &p);
    assert!(r.is_ok());
    if let Ok(info) = &r {
        check_fields(info, g.cb, g.order, g.bs, g.l2sb, g.rbsb, size);
        assert!(info.l2_cache_cnt as usize == n1 && info.rb_cache_cnt as usize == n2);
        assert!(info.is_read_only() == (ro || back_dev));
        assert!(info.is_back_file() == back_dev);
        assert!(info.has_back_file() == has_back);
        // a backing device is always read-only
        if back_dev {
            assert!(info.is_read_only());
        }
    }
    kani::cover!(g.cb == 9 && g.order == 6);
    kani::cover!(g.cb == 21 && g.order == 0);
    kani::cover!(back_dev && !ro);
    core::mem::forget(r);
    core::mem::forget(h);
}

// @harness c09_info_default
// @props C09 C14
// @tier quick
// @cost 11
// @timeout 600
// @desc Qcow2Info::new with the DEFAULT parameters (rb_cache = l2_cache = None, as qcow2_default_params! builds them) for every supported cluster size, refcount width, block size and virtual size: returns Ok without panic or arithmetic overflow, the slice size it picks does not exceed the cluster size and the derived geometry equals the spec formulas
// @bounds cluster_bits 9..=21, refcount_order 0..=6, block bits 9..=12 (<= cluster_bits), virtual size any u64: all symbolic
// @funcs Qcow2Info::new cache_geometry
// @stub alloc::fmt::format -> String::new()
#[kani::proof]
#[kani::stub(alloc::fmt::format, fmt_stub)]
fn c09_info_default() {
    let g = any_geo();
    let size: u64 = kani::any();
    let h = mk_header(g.cb, g.order, size, 1, 1, false);
    let p = Qcow2DevParams::new(g.bs, None, None, false, false);
    let r = Qcow2Info::new(&h, &p);
    assert!(r.is_ok());
    if let Ok(info) = &r {
        let l2sb = info.l2_slice_bits;
        let rbsb = info.rb_slice_bits;
        assert!(l2sb as u32 <= g.cb && rbsb as u32 <= g.cb && l2sb >= 9 && rbsb >= 9);
        check_fields(info, g.cb, g.order, g.bs, l2sb, rbsb, size);
    }
    kani::cover!(g.cb == 9);
    kani::cover!(g.cb == 16 && g.order == 4);
    kani::cover!(g.cb == 21);
    core::mem::forget(r);
    core::mem::forget(h);
}

fn ceil_shift(x: u64, k: u32) -> u64 {
    (x >> k) + ((x & ((1u64 << k) - 1)) != 0) as u64
}

// @harness c09_meta_params
// @props C09 C20 C12 C03
// @tier quick
// @cost 58
// @timeout 900
// @desc Qcow2Header::calculate_meta_params, Qcow2Info::get_max_l1_entries, __max_l1_size, __max_refcount_table_size for all inputs: no overflow; refcount table at cluster 1 and large enough (8 bytes per refcount block needed to describe `size` bytes, rounded up to the block size, capped at 8 MiB); refcount block directly after it; L1 table directly after that with ceil(size / (l2_entries*cluster_size)) entries capped at 32 MiB; all three regions cluster aligned, consecutive and non-overlapping
// @bounds size: all u64 >= 1; cluster_bits 9..=21, refcount_order 0..=6, block bits 9..=12: symbolic
// @funcs Qcow2Header::calculate_meta_params Qcow2Info::__max_refcount_table_size Qcow2Info::get_max_l1_entries Qcow2Info::__max_l1_entries Qcow2Info::__max_l1_size IntAlignment::align_up
// @stub alloc::fmt::format -> String::new()
#[kani::proof]
#[kani::stub(alloc::fmt::format, fmt_stub)]
fn c09_meta_params() {
    let size: u64 = kani::any();
    let cb: u32 = kani::any();
    let order: u32 = kani::any();
    let bsb: u32 = kani::any();
    kani::assume(cb >= 9 && cb <= 21 && order <= 6 && bsb >= 9 && bsb <= 12 && bsb <= cb);
    kani::assume(size >= 1);
    let bs = 1usize << bsb;
    let cs = spec::cluster_size(cb);
    let ((rt_off, rt_cls), (rb_off, rb_cls), (l1_off, l1_cls)) =
        Qcow2Header::calculate_meta_params(size, cb as usize, order as u8, bs);
    // spec-side expectations
    let rb_cover_bits = spec::rb_bits(cb, order) + cb; // bytes of host space one refblock describes
    let rt_entries = ceil_shift(size, rb_cover_bits);
    let rt_bytes_raw = rt_entries * 8;
    let rt_bytes = core::cmp::min(ceil_shift(rt_bytes_raw, bsb) << bsb, 8u64 << 20);
    assert!(rt_off == cs);
    assert!(rt_cls as u64 == ceil_shift(rt_bytes, cb));
    assert!(rt_cls >= 1);
    assert!(rb_off == rt_off + ((rt_cls as u64) << cb) && rb_cls == 1);
    assert!(l1_off == rb_off + cs);
    let l1_entries = core::cmp::min(ceil_shift(size, spec::l2_bits(cb) + cb), (32u64 << 20) / 8);
    assert!(Qcow2Info::get_max_l1_entries(size, cb as usize) as u64 == l1_entries);
    let l1_bytes = ceil_shift(l1_entries * 8, bsb) << bsb;
    assert!(l1_cls as u64 == ceil_shift(l1_bytes, cb) && l1_cls >= 1);
    kani::cover!(rt_cls > 1);
    kani::cover!(rt_bytes == 8u64 << 20, "refcount table capped");
    kani::cover!(l1_entries == (32u64 << 20) / 8, "L1 capped");
    kani::cover!(size == u64::MAX);
}
