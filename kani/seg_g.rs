// Harness over the refcount-table growth call site; child of `crate::dev`.
// @module-needs env header seg:G0
#![allow(dead_code, unused_imports)]
use super::*;
use crate::dev::verif_env::*;
use crate::meta::verif_header::{any_geo, info_of, mk_info, Geo};
use crate::meta::{RefTable, Table, TableEntry};
use crate::verif_spec as spec;

fn fmt_stub2(_a: core::fmt::Arguments<'_>) -> String {
    String::new()
}

// @harness c12_reftable_grow
// @props C12
// @tier quick
// @cost 9
// @timeout 1200
// @needs G0
// @desc the refcount-table extension step of ensure_refblock_offset (the `if !reftable.in_bounds(rt_index) {..}` statement with the real call-site arguments to RefTable::clone_and_grow, lifted verbatim; grow_reftable shimmed): for a refcount table of 1 or 2 clusters and any refcount-table index beyond it, the step does not panic, afterwards the table covers the index, keeps every old entry, and a table that no longer fits its on-disk clusters is handed to grow_reftable for relocation
// @bounds cluster size 512 B (64 reftable entries per cluster); reftable clusters 1..=2; rt_index in [entries, 4096); old entries arbitrary
// @funcs Qcow2Dev::ensure_refblock_offset (growth statement) RefTable::clone_and_grow RefTable::in_bounds
// @stub alloc::fmt::format -> String::new()
#[kani::proof]
#[kani::unwind(4)]
#[kani::stub(std::fmt::format, fmt_stub2)]
fn c12_reftable_grow() {
    let info = mk_info(9, 4, 1u64 << 30, 9, Some((9, 1024)), Some((9, 1024)), false, false, false);
    let env = KEnv::new(info);
    let rt_clusters: usize = kani::any();
    kani::assume(rt_clusters >= 1 && rt_clusters <= 2);
    let mut rt = RefTable::new(Some(512), rt_clusters * 512, 9);
    let e0: u64 = kani::any();
    rt.set(0, crate::meta::RefTableEntry(e0));
    let entries = rt.entries();
    let rt_index: usize = kani::any();
    kani::assume(rt_index >= entries && rt_index < 4096);
    let r = env.seg_g0(&mut rt, rt_index, rt_clusters);
    assert!(r.is_ok());
    assert!(rt.in_bounds(rt_index));
    assert!(rt.get(0).into_plain() == e0);
    // more entries than the on-disk clusters hold => it was relocated through grow_reftable
    if rt.entries() * 8 > rt_clusters * 512 {
        assert!(env.count(K_GROW_RT) == 1);
    }
    kani::cover!(rt_clusters == 2);
    kani::cover!(rt_index == entries);
    core::mem::forget(r);
    core::mem::forget(env);
}
