// Harness module injected as a child of `crate::dev::write` (sees the private need_make_mapping).
// @module-needs header
#![allow(dead_code, unused_imports)]
use super::*;
use crate::meta::verif_header::{any_geo, info_of};
use crate::verif_spec as spec;

pub(crate) struct KIo;
impl Qcow2IoOps for KIo {
    async fn read_to(&self, _offset: u64, _buf: &mut [u8]) -> Qcow2Result<usize> {
        Ok(0)
    }
    async fn write_from(&self, _offset: u64, _buf: &[u8]) -> Qcow2Result<()> {
        Ok(())
    }
    async fn fallocate(&self, _offset: u64, _len: usize, _flags: u32) -> Qcow2Result<()> {
        Ok(())
    }
    async fn fsync(&self, _offset: u64, _len: usize, _flags: u32) -> Qcow2Result<()> {
        Ok(())
    }
}

fn fmt_stub2(_a: core::fmt::Arguments<'_>) -> String {
    String::new()
}

// @harness c01_need_make_mapping
// @props C01 C10
// @tier quick
// @cost 8
// @timeout 600
// @desc Qcow2Dev::need_make_mapping (which decides whether write_at pre-populates a mapping) on the mapping the real into_mapping produces for every spec-valid L2 entry: false for a cluster writable in place; false for every copy-on-write source (compressed cluster; backing-provided or unallocated cluster of an image with a backing file) -- pre-populating those would publish a mapping before the old data is copied; true otherwise
// @bounds raw: every spec-valid u64; full symbolic geometry; has-backing symbolic
// @funcs Qcow2Dev::need_make_mapping Mapping::plain_offset L2Entry::into_mapping
// @stub alloc::fmt::format -> String::new()
#[kani::proof]
#[kani::stub(std::fmt::format, fmt_stub2)]
fn c01_need_make_mapping() {
    let g = any_geo();
    let has_back: bool = kani::any();
    let info = info_of(&g, 1u64 << 62, false, false, has_back);
    let raw: u64 = kani::any();
    kani::assume(spec::l2_valid(raw, g.cb));
    let m = L2Entry(raw).into_mapping(&info, &SplitGuestOffset(0));
    let need = Qcow2Dev::<KIo>::need_make_mapping(&m, &info);
    let d = spec::decode_l2(raw, g.cb);
    let want = match d.kind {
        spec::Kind::Data => !d.copied,
        spec::Kind::Zero => true,
        spec::Kind::Compressed => false,
        spec::Kind::Unallocated => !has_back,
    };
    assert!(need == want);
    kani::cover!(d.kind == spec::Kind::Compressed);
    kani::cover!(d.kind == spec::Kind::Unallocated && has_back);
    kani::cover!(d.kind == spec::Kind::Zero);
    kani::cover!(need && d.kind == spec::Kind::Data);
    core::mem::forget(m);
    core::mem::forget(info);
}
