// Harness over the header construction of the formatter; child of `crate::meta::header`.
// @module-needs env header seg:F1 seg:F2
#![allow(dead_code, unused_imports)]
use super::*;
use crate::dev::verif_env::*;
use crate::meta::verif_header::{fmt_stub, mk_info};
use crate::verif_spec as spec;

// @harness c09_format_header
// @props C09 C20
// @tier quick
// @cost 6
// @timeout 900
// @needs F1
// @desc the header the formatter builds (the statements of format_qcow2 from the L1-entry computation to the header literal, lifted verbatim) for every virtual size, cluster size and refcount width: l1_size == ceil(size / (cluster_size/8 * cluster_size)) -- the number of L1 entries the specification needs to map the whole disk, incl. a partial last cluster -- and version, cluster_bits, size, refcount_order and the table positions are the values handed in
// @bounds size: 1 ..= what a 32 MiB L1 table can map; cluster_bits 9..=21; refcount_order 0..=6; table positions arbitrary
// @funcs Qcow2Header::format_qcow2 (header construction)
// @stub alloc::fmt::format -> String::new()
#[kani::proof]
#[kani::stub(std::fmt::format, fmt_stub)]
fn c09_format_header() {
    let env = KEnv::new(mk_info(16, 4, 1 << 30, 9, Some((9, 1024)), Some((9, 1024)), false, false, false));
    let cb: u32 = kani::any();
    let order: u32 = kani::any();
    kani::assume(cb >= 9 && cb <= 21 && order <= 6);
    let size: u64 = kani::any();
    let per_l1_bits = spec::l2_bits(cb) + cb;
    kani::assume(size >= 1 && size <= ((32u64 << 20) / 8) << per_l1_bits);
    let rc_table: (u64, u32) = (kani::any(), kani::any());
    let l1_table: (u64, u32) = (kani::any(), kani::any());
    let h = env.seg_f1(size, cb as usize, order as u8, rc_table, l1_table);
    let want = (size >> per_l1_bits) + ((size & ((1u64 << per_l1_bits) - 1)) != 0) as u64;
    let (l1_size, hcb, hsize, hro, hver, magic) = (h.l1_size, h.cluster_bits, h.size, h.refcount_order, h.version, h.magic);
    assert!(l1_size as u64 == want);
    assert!(hcb == cb && hsize == size && hro == order && hver == 3 && magic == Qcow2Header::QCOW2_MAGIC);
    let (l1o, rto, rtc) = (h.l1_table_offset, h.refcount_table_offset, h.refcount_table_clusters);
    assert!(l1o == l1_table.0 && rto == rc_table.0 && rtc == rc_table.1);
    kani::cover!(size & ((1u64 << cb) - 1) != 0 && want >= 2, "virtual size not a multiple of the cluster size");
    kani::cover!(size < (1u64 << cb), "disk smaller than one cluster");
    core::mem::forget(env);
}

macro_rules! format_refcounts {
    ($name:ident, $order:expr, $size:expr, $rtc:expr, $l1c:expr, $unw:expr) => {
        #[kani::proof]
        #[kani::unwind($unw)]
        #[kani::stub(std::fmt::format, fmt_stub)]
        fn $name() {
            let env = KEnv::new(mk_info(16, 4, 1 << 30, 9, Some((9, 1024)), Some((9, 1024)), false, false, false));
            let cb: u32 = 9;
            let order: u32 = $order;
            // table geometry exactly as format_qcow2 obtains it (decided against the spec by c09_meta_params)
            let (rc_table, rc_blk, l1_table) = Qcow2Header::calculate_meta_params($size, cb as usize, order as u8, 512);
            assert!(rc_table.1 == $rtc && rc_blk.1 == 1 && l1_table.1 == $l1c);
            let r = env.seg_f2(cb as usize, order as u8, rc_table, rc_blk, l1_table);
            let (rc_t, ref_b) = match r {
                Ok(x) => x,
                Err(e) => {
                    core::mem::forget(e);
                    assert!(false);
                    return;
                }
            };
            // an independent reader: refcount of host cluster j straight from the block's bytes
            let bytes = unsafe { core::slice::from_raw_parts(ref_b.as_ptr() as *const u8, 512) };
            let entries = spec::rb_entries(cb, order) as usize;
            let j: usize = kani::any();
            kani::assume(j < entries);
            let got = spec::rc_get(bytes, order, j);
            // header, refcount table clusters, the refcount block itself, L1 table clusters:
            // contiguous from cluster 0, one reference each; everything else is free
            let used = 1 + $rtc + 1 + $l1c;
            assert!(rc_blk.0 == (1 + $rtc as u64) << cb && l1_table.0 == (2 + $rtc as u64) << cb);
            if j < used { assert!(got == 1); } else { assert!(got == 0); }
            // refcount table: entry 0 -> the block, every other entry empty
            let i: usize = kani::any();
            kani::assume(i < ($rtc as usize) * 64);
            let e = rc_t.get(i).into_plain();
            if i == 0 { assert!(e == rc_blk.0); } else { assert!(e == 0); }
            kani::cover!(j == used - 1 && got == 1);
            kani::cover!(j == $rtc + 1, "the refcount block's own cluster");
            core::mem::forget(rc_t);
            core::mem::forget(ref_b);
            core::mem::forget(env);
        }
    };
}

// @harness c09_format_refcounts_rt1
// @props C09 C03 C20
// @tier quick
// @cost 10
// @timeout 900
// @needs F2
// @desc the statements of format_qcow2 that build the initial refcount table and refcount block (lifted verbatim), read back by the independent spec reader: every cluster of the header, the refcount table, the refcount block itself and the L1 table has refcount exactly 1, every other cluster 0 (checked at a symbolic cluster index), refcount-table entry 0 points at the block and all other entries are empty -- for a virtual size whose refcount table is ONE cluster
// @bounds 512-byte clusters and blocks, 16-bit refcounts, virtual size 1 MiB + 512 (1 refcount-table cluster, 1 L1 cluster); all 256 counters of the block via a symbolic index
// @funcs Qcow2Header::format_qcow2 (refcount construction) Qcow2Header::calculate_meta_params RefBlock::increment RefTable::set
// @stub alloc::fmt::format -> String::new()
format_refcounts!(c09_format_refcounts_rt1, 4, (1u64 << 20) + 512, 1, 1, 4);

// @harness c09_format_refcounts_rt2
// @props C09 C03 C20
// @tier quick
// @cost 10
// @timeout 900
// @needs F2
// @desc as c09_format_refcounts_rt1 for a virtual size whose refcount table spans TWO clusters (the refcount block no longer sits in cluster 2)
// @bounds 512-byte clusters and blocks, 16-bit refcounts, virtual size 8 MiB + 512 (2 refcount-table clusters, 5 L1 clusters)
// @funcs Qcow2Header::format_qcow2 (refcount construction) Qcow2Header::calculate_meta_params RefBlock::increment RefTable::set
// @stub alloc::fmt::format -> String::new()
format_refcounts!(c09_format_refcounts_rt2, 4, (8u64 << 20) + 512, 2, 5, 7);

// @harness c09_format_refcounts_rt2_o6
// @props C09 C03 C20
// @tier quick
// @cost 10
// @timeout 900
// @needs F2
// @desc as c09_format_refcounts_rt2 with 64-bit refcounts (64 counters per block)
// @bounds 512-byte clusters and blocks, 64-bit refcounts, virtual size 2 MiB + 512 (2 refcount-table clusters, 2 L1 clusters)
// @funcs Qcow2Header::format_qcow2 (refcount construction) Qcow2Header::calculate_meta_params RefBlock::increment RefTable::set
// @stub alloc::fmt::format -> String::new()
format_refcounts!(c09_format_refcounts_rt2_o6, 6, (2u64 << 20) + 512, 2, 2, 4);
