// Harness over the header construction of the formatter; child of `crate::meta::header`.
// @module-needs env header seg:F1
#![allow(dead_code, unused_imports)]
use super::*;
use crate::dev::verif_env::*;
use crate::meta::verif_header::{fmt_stub, mk_info};
use crate::verif_spec as spec;

// @harness c09_format_header
// @props C09 C20
// @tier quick
// @cost 6
// @timeout 900
// @needs F1
// @desc the header the formatter builds (the statements of format_qcow2 from the L1-entry computation to the header literal, lifted verbatim) for every virtual size, cluster size and refcount width: l1_size == ceil(size / (cluster_size/8 * cluster_size)) -- the number of L1 entries the specification needs to map the whole disk, incl. a partial last cluster -- and version, cluster_bits, size, refcount_order and the table positions are the values handed in
// @bounds size: 1 ..= what a 32 MiB L1 table can map; cluster_bits 9..=21; refcount_order 0..=6; table positions arbitrary
// @funcs Qcow2Header::format_qcow2 (header construction)
// @stub alloc::fmt::format -> String::new()
#[kani::proof]
#[kani::stub(std::fmt::format, fmt_stub)]
fn c09_format_header() {
    let env = KEnv::new(mk_info(16, 4, 1 << 30, 9, Some((9, 1024)), Some((9, 1024)), false, false, false));
    let cb: u32 = kani::any();
    let order: u32 = kani::any();
    kani::assume(cb >= 9 && cb <= 21 && order <= 6);
    let size: u64 = kani::any();
    let per_l1_bits = spec::l2_bits(cb) + cb;
    kani::assume(size >= 1 && size <= ((32u64 << 20) / 8) << per_l1_bits);
    let rc_table: (u64, u32) = (kani::any(), kani::any());
    let l1_table: (u64, u32) = (kani::any(), kani::any());
    let h = env.seg_f1(size, cb as usize, order as u8, rc_table, l1_table);
    let want = (size >> per_l1_bits) + ((size & ((1u64 << per_l1_bits) - 1)) != 0) as u64;
    let (l1_size, hcb, hsize, hro, hver, magic) = (h.l1_size, h.cluster_bits, h.size, h.refcount_order, h.version, h.magic);
    assert!(l1_size as u64 == want);
    assert!(hcb == cb && hsize == size && hro == order && hver == 3 && magic == Qcow2Header::QCOW2_MAGIC);
    let (l1o, rto, rtc) = (h.l1_table_offset, h.refcount_table_offset, h.refcount_table_clusters);
    assert!(l1o == l1_table.0 && rto == rc_table.0 && rtc == rc_table.1);
    kani::cover!(size & ((1u64 << cb) - 1) != 0 && want >= 2, "virtual size not a multiple of the cluster size");
    kani::cover!(size < (1u64 << cb), "disk smaller than one cluster");
    core::mem::forget(env);
}
