// Harness over the L1 header-entry extension of ensure_l2_offset (lifted from src/dev/write.rs);
// child of `crate::dev`.
// @module-needs env header seg:LE
#![allow(dead_code, unused_imports)]
use super::*;
use crate::dev::verif_env::*;
use crate::meta::verif_header::{mk_header, mk_info};
use crate::meta::{L1Table, Table};

fn fmt_stub_le(_a: core::fmt::Arguments<'_>) -> String {
    String::new()
}

impl KEnv {
    /// the callee is lifted code as well (segment LE, second part)
    pub(crate) fn k_flush_header_for_l1_table(&self, l1_offset: u64, l1_entries: usize) -> Qcow2Result<()> {
        self.seg_lf(l1_offset, l1_entries)
    }
}

// @harness c12_l1_header_extension
// @props C12 C17
// @tier quick
// @cost 10
// @timeout 900
// @needs LE
// @desc the bounds block of ensure_l2_offset with flush_header_for_l1_table (both lifted verbatim), on the L1 table as Qcow2Dev::new sizes it (RAM entries = __max_l1_size(max_l1_entries)/8): for EVERY guest L1 index of the virtual disk the table is in bounds afterwards, without relocation (no allocate/free/flush); an index beyond the header's active entries commits the header exactly once with the UNCHANGED table offset and an l1_size that covers the index and fits the table (no assert of flush_header_for_l1_table fires) and only then widens header_entries; an index already in bounds touches nothing; when the header write fails the error is returned, the header fields are rolled back and the table is NOT widened
// @bounds 512-byte clusters, 512-byte blocks, every virtual size up to 64 L1 entries (2 MiB), every header l1_size <= max_l1_entries, every L1 index of the disk; header write succeeds or fails
// @assume commit_header replaced by its contract (records the header it is asked to write; on failure runs the rollback closure and returns Err) -- the contract is decided on the lifted commit_header by c17_header_write_rollback
// @funcs Qcow2Dev::ensure_l2_offset(bounds-block) Qcow2Dev::flush_header_for_l1_table L1Table::in_bounds L1Table::update_header_entries Qcow2Header::set_l1_table Qcow2Info::max_l1_entries Qcow2Info::__max_l1_size
// @stub alloc::fmt::format -> String::new()
#[kani::proof]
#[kani::unwind(10)]
#[kani::stub(std::fmt::format, fmt_stub_le)]
fn c12_l1_header_extension() {
    let (env, t, x) = l1_ext_body(512, 1, 64, false);
    let l1_off = 3u64 << 9;
    // never the relocation branch for an index of the virtual disk
    assert!(!x.relocated && env.count(K_FREE) == 0 && env.count(K_FLUSH_REFCOUNT) == 0);
    assert!(env.count(K_FLUSH_MAPPING) == 0 && env.count(K_BACKEND_WRITE) == 0);
    assert!(t.get_offset() == Some(l1_off) && t.entries() == 64);
    assert!(x.h_off == l1_off);
    if x.was_in {
        assert!(x.ok && env.count(K_COMMIT_HEADER) == 0);
        assert!(x.h_n == x.he && t.in_bounds(x.idx));
    } else {
        assert!(env.count(K_COMMIT_HEADER) == 1);
        let c = env.get_rec(env.first(K_COMMIT_HEADER));
        assert!(c.off == l1_off && c.len > x.idx && c.len <= t.entries());
        if x.fail {
            assert!(!x.ok);
            assert!(x.h_n == x.he);
            assert!(!t.in_bounds(x.idx));
        } else {
            assert!(x.ok);
            // the header that was committed is the header in memory, and the table's active
            // entries are exactly the ones the header lists
            assert!(x.h_n == c.len);
            assert!(t.in_bounds(x.idx) && t.in_bounds(x.h_n - 1) && !t.in_bounds(x.h_n));
        }
    }
    kani::cover!(x.was_in);
    kani::cover!(!x.was_in && !x.fail && x.m == 64 && x.he == 0);
    kani::cover!(!x.was_in && x.fail);
    core::mem::forget(t);
    core::mem::forget(env);
}

// @harness c12_l1_extension_room
// @props C12
// @tier quick
// @cost 10
// @timeout 900
// @needs LE
// @desc same lifted code on a two-cluster L1 table: when ensure_l2_offset activates more L1 entries WITHOUT relocating the table, the entries the new header lists still lie inside the clusters the old header said the table occupies (ceil(l1_size*8 / cluster_size) clusters) -- otherwise L1 blocks are later written over clusters the table does not own
// @bounds 512-byte clusters, 512-byte blocks, virtual sizes needing 65..128 L1 entries (two clusters of L1 table), every header l1_size in 1..=max_l1_entries, every L1 index of the disk; header write succeeds
// @assume commit_header replaced by its contract; the only knowledge of the on-disk L1 allocation is the header's l1_size (the code consults nothing else)
// @funcs Qcow2Dev::ensure_l2_offset(bounds-block) Qcow2Dev::flush_header_for_l1_table L1Table::in_bounds L1Table::update_header_entries Qcow2Info::max_l1_entries
// @stub alloc::fmt::format -> String::new()
#[kani::proof]
#[kani::unwind(10)]
#[kani::stub(std::fmt::format, fmt_stub_le)]
fn c12_l1_extension_room() {
    let (env, t, x) = l1_ext_body(1024, 65, 128, true);
    // bytes of the table the old header vouched for
    let owned = ((x.he * 8 + 511) / 512) * 512;
    if x.ok && !x.relocated {
        assert!(x.h_off == 3u64 << 9);
        assert!(x.h_n * 8 <= owned);
    }
    kani::cover!(!x.was_in && x.he > 64);
    kani::cover!(!x.was_in && x.he <= 64 && x.idx >= 64);
    core::mem::forget(t);
    core::mem::forget(env);
}

struct LeOut {
    ok: bool,
    relocated: bool,
    fail: bool,
    was_in: bool,
    idx: usize,
    he: usize,
    m: usize,
    h_off: u64,
    h_n: usize,
}

fn l1_ext_body(ram_bytes: usize, m_lo: usize, m_hi: usize, room: bool) -> (KEnv, L1Table, LeOut) {
    let size: u64 = kani::any();
    kani::assume(size >= 512 && size % 512 == 0);
    kani::assume(size > ((m_lo as u64 - 1) << 15) && size <= (m_hi as u64) << 15);
    let info = mk_info(9, 4, size, 9, Some((9, 1024)), Some((9, 1024)), false, false, false);
    let m = info.max_l1_entries();
    assert!(m >= m_lo && m <= m_hi);
    // RAM size of the table exactly as Qcow2Dev::new computes it
    let ram = Qcow2Info::__max_l1_size(m, 512);
    assert!(ram == ram_bytes);
    let he: u32 = kani::any();
    kani::assume(he as usize <= m);
    if room {
        kani::assume(he >= 1);
    }
    let l1_off = 3u64 << 9;
    let mut t = L1Table::new(Some(l1_off), ram_bytes, he, 9);
    assert!(t.entries() == ram_bytes / 8 && m <= t.entries());
    let mut env = KEnv::new(info);
    *env.header.kwrite() = mk_header(9, 4, size, he, 1, false);
    let fail: bool = if room { false } else { kani::any() };
    env.fail_write.set(fail);
    let idx: usize = kani::any();
    kani::assume(idx < m);
    let was_in = t.in_bounds(idx);

    let r = env.seg_le(&mut t, idx);

    let (h_off, h_n) = {
        let h = env.header.kread();
        (h.l1_table_offset(), h.l1_table_entries())
    };
    let relocated = env.count(K_ALLOC) != 0;
    let ok = r.is_ok();
    core::mem::forget(r);
    (env, t, LeOut { ok, relocated, fail, was_in, idx, he: he as usize, m, h_off, h_n })
}
