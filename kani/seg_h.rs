// Harnesses over commit_header / refcount-table growth; child of `crate::dev`.
// @module-needs env header seg:H0
#![allow(dead_code, unused_imports)]
use super::*;
use crate::dev::verif_env::*;
use crate::meta::verif_header::{any_geo, info_of, mk_header, Geo};
use crate::meta::{RefTable, Table, TableEntry};
use crate::verif_spec as spec;

fn fmt_stub2(_a: core::fmt::Arguments<'_>) -> String {
    String::new()
}

// @harness c16_header_write
// @props C16 C17 C04
// @tier quick
// @cost 74
// @timeout 1200
// @needs H0
// @desc commit_header (whole body, backend shimmed) on a header without extensions: every request it sends starts at a block boundary and has a length that is a non-zero multiple of the block size; when the read of the header block or the write fails the rollback closure runs and the error is returned (a failed read writes nothing)
// @bounds header built directly (no extensions, no backing name); cluster_bits 9..=21; block bits 9..=12 symbolic; write outcome symbolic
// @funcs Qcow2Dev::commit_header Qcow2Header::serialize_to_buf Qcow2RawHeader::serialize_vec
// @stub alloc::fmt::format -> String::new()
#[kani::proof]
#[kani::unwind(10)]
#[kani::stub(std::fmt::format, fmt_stub2)]
fn c16_header_write() {
    let g = any_geo();
    let env = KEnv::new(info_of(&g, 1u64 << 40, false, false, false));
    let mut h = mk_header(g.cb, g.order, 1u64 << 40, 1, 1, false);
    let fail_w: bool = kani::any();
    let fail_r: bool = kani::any();
    env.fail_write.set(fail_w);
    env.fail_read.set(fail_r);
    let fail = fail_w || fail_r;
    let rolled = core::cell::Cell::new(false);
    let r = env.seg_h0(&mut h, |_h| rolled.set(true));
    assert!(r.is_ok() == !fail);
    assert!(rolled.get() == fail);
    let bs = 1u64 << g.bs;
    let n = env.nrec.get();
    assert!(n >= 1);
    let mut k = 0;
    let mut writes = 0;
    while k < 3 {
        if k < n {
            let w = env.get_rec(k);
            assert!(w.kind == K_BACKEND_WRITE || w.kind == K_BACKEND_READ);
            assert!(w.off % bs == 0);
            assert!(w.len > 0 && (w.len as u64) % bs == 0);
            if w.kind == K_BACKEND_WRITE {
                assert!(w.off == 0);
                writes += 1;
            }
        }
        k += 1;
    }
    // a failed read of the header block aborts before anything is written
    assert!(writes == if fail_r { 0 } else { 1 });
    kani::cover!(fail_r);
    kani::cover!(fail_w && !fail_r);
    kani::cover!(!fail && g.bs == 12);
    core::mem::forget(r);
    core::mem::forget(h);
    core::mem::forget(env);
}
