// Harness over the batch L2 lookup lifted from src/dev/read.rs::get_l2_entries; child of `crate::dev`.
// @module-needs env header seg:GE seg:GS
#![allow(dead_code, unused_imports)]
use super::*;
use crate::dev::verif_env::*;
use crate::meta::verif_header::{any_geo, info_of, mk_info, Geo};
use crate::meta::{L1Entry, L2Entry, L2Table, SplitGuestOffset, Table};
use crate::verif_spec as spec;

fn fmt_stub2(_a: core::fmt::Arguments<'_>) -> String {
    String::new()
}

/// request shape: any in-cluster start offset, any length up to two clusters
fn shape_any(cs: u64) -> (u64, usize) {
    let in_off: u64 = kani::any();
    kani::assume(in_off < cs);
    let len: usize = kani::any();
    kani::assume(len >= 1 && (len as u64) <= 2 * cs);
    (in_off, len)
}

/// request shape: 1..=3 clusters, starting at the cluster boundary or 0x1200 bytes into it
fn shape_blocks(cs: u64) -> (u64, usize) {
    let n: u8 = kani::any();
    kani::assume(n >= 1 && n <= 3);
    let unaligned: bool = kani::any();
    let in_off = if unaligned { 0x1200 } else { 0 };
    (in_off, ((n as u64) * cs - in_off) as usize)
}

fn any_in(lo: u64, hi: u64) -> u64 {
    let x: u64 = kani::any();
    kani::assume(x >= lo && x <= hi);
    x
}

fn entries_any() -> ([u64; 4], [u64; 4], [u64; 4]) {
    (kani::any(), kani::any(), kani::any())
}

/// pairwise distinct, non-zero entries: enough to tell which slice and slot an entry came from
fn entries_distinct() -> ([u64; 4], [u64; 4], [u64; 4]) {
    (
        [0x8000_0000_00a0_0000, 0x8000_0000_00a1_0000, 0x8000_0000_00a2_0000, 0x8000_0000_00a3_0000],
        [0x8000_0000_00b0_0000, 0x8000_0000_00b1_0000, 0x8000_0000_00b2_0000, 0x8000_0000_00b3_0000],
        [0x8000_0000_00c0_0000, 0x8000_0000_00c1_0000, 0x8000_0000_00c2_0000, 0x8000_0000_00c3_0000],
    )
}

macro_rules! ge_lookup {
    ($name:ident, $base:expr, $first:expr, $shape:ident, $entries:ident) => {
#[kani::proof]
#[kani::unwind(6)]
#[kani::stub(std::fmt::format, fmt_stub2)]
fn $name() {
    let cb = 16u32;
    let info = mk_info(cb, 4, 1u64 << 40, 9, Some((9, 1024)), Some((10, 2048)), false, false, false);
    let mut env = KEnv::new(info);
    let cs = 1u64 << cb;
    let base: usize = $base;
    let (a, b, w): ([u64; 4], [u64; 4], [u64; 4]) = $entries(); // slice0[60..64], slice1[0..4], slice0[0..4]
    let mut s0 = L2Table::new(Some(0x10000), 512, cb as usize);
    let mut s1 = L2Table::new(Some(0x10200), 512, cb as usize);
    let mut i = 0;
    while i < 4 {
        s0.set(60 + i, L2Entry(a[i]));
        s0.set(i, L2Entry(w[i]));
        s1.set(i, L2Entry(b[i]));
        i += 1;
    }
    env.l2cache = KCache { base, s: [Some(KHandle::new(s0)), Some(KHandle::new(s1))], cached: [kani::any(), kani::any()] };
    env.l1_entry = unsafe { core::mem::transmute::<u64, L1Entry>(0x8000_0000_0005_0000u64) };
    // request: first cluster = slice0 entry 61..=63, 1..=4 clusters
    let first_idx: u64 = $first;
    let first_cluster = ((base as u64) << 6) + first_idx;
    let (in_off, len) = $shape(cs);
    let off = (first_cluster << cb) + in_off;
    let r = env.seg_ge(off, len);
    assert!(r.is_ok());
    if let Ok(v) = r {
        let last_cluster = (off + len as u64 - 1) >> cb;
        let n = (last_cluster - first_cluster + 1) as usize;
        assert!(v.len() == n);
        let mut k = 0;
        for e in v {
            let idx = first_idx as usize + k; // position counted from the start of slice 0
            let want = if idx < 64 { a[idx - 60] } else { b[idx - 64] };
            assert!(e.0 == want);
            k += 1;
        }
        kani::cover!(first_idx as usize + n > 64, "crosses into the next slice");
        kani::cover!(n == 1);
    }
    core::mem::forget(env);
}
    };
}

// @harness c01_l2_entries_lookup
// @props C01 C09
// @tier quick
// @cost 411
// @mem 24
// @timeout 1500
// @needs GE
// @desc the whole body of get_l2_entries (cache / L1 lookups shimmed by two adjacent L2 slices with arbitrary entries, each cached or not): it returns exactly one entry per guest cluster touched by [off, off+len), in order, and entry i is the L2 entry of guest cluster first+i taken from the RIGHT slice at the RIGHT index -- including requests that start in the middle of a slice and cross into the next one
// @bounds two adjacent 64-entry slices (512-byte slices) with pairwise distinct entries in the last 4 slots of the first, the first 4 of the second and the first 4 of the first (wrap-around witnesses); request: starts in the LAST cluster of the first slice (slice key 3, concrete), covers 1..=3 clusters and starts at the cluster boundary or 0x1200 bytes into the cluster; 64 KiB clusters (concrete); cached/uncached symbolic; both L1 entries non-zero
// @funcs Qcow2Dev::get_l2_entries (whole body) SplitGuestOffset::{l2_slice_key,l2_slice_index} L2Table::get_entry Qcow2Info::{cluster_round_up,cluster_round_down}
// @stub alloc::fmt::format -> String::new()
ge_lookup!(c01_l2_entries_lookup, 3usize, 63u64, shape_blocks, entries_distinct);

// @harness c01_l2_entries_lookup_wide
// @props C01 C09
// @tier thorough
// @cost 150
// @mem 24
// @timeout 1500
// @needs GE
// @desc the whole body of get_l2_entries (cache / L1 lookups shimmed by two adjacent L2 slices with arbitrary entries, each cached or not): it returns exactly one entry per guest cluster touched by [off, off+len), in order, and entry i is the L2 entry of guest cluster first+i taken from the RIGHT slice at the RIGHT index -- including requests that start in the middle of a slice and cross into the next one
// @bounds two adjacent 64-entry slices (512-byte slices), pairwise distinct entries in the last 4 of the first, the first 4 of the second and the first 4 of the first (wrap-around witnesses); request: starts in the SECOND-TO-LAST cluster of the first slice, covers 1..=3 clusters and starts at the cluster boundary or 0x1200 bytes into the cluster; 64 KiB clusters (concrete); cached/uncached symbolic; both L1 entries non-zero
// @funcs Qcow2Dev::get_l2_entries (whole body) SplitGuestOffset::{l2_slice_key,l2_slice_index} L2Table::get_entry Qcow2Info::{cluster_round_up,cluster_round_down}
// @stub alloc::fmt::format -> String::new()
ge_lookup!(c01_l2_entries_lookup_wide, 3usize, 62u64, shape_blocks, entries_distinct);

// @harness c01_l2_entry_lookup_single
// @props C01 C09
// @tier quick
// @cost 20
// @timeout 900
// @needs GS
// @desc whole get_l2_entry (lifted; used by the write path, discard and get_mapping) over two adjacent real L2 slices, cached or not: the entry returned for ANY byte offset inside the window is the entry stored at the slot the spec's l2_index arithmetic gives (slice = key of the offset, slot = index inside that slice), whichever of the two slices holds it and whether it comes from the cache or has to be loaded; with an empty L1 entry and no cached slice the cluster is unallocated (entry 0) and nothing is loaded
// @bounds 64 KiB clusters, 512-byte L2 slices (64 entries), two adjacent slices with arbitrary entries in the last 4 slots of the first and the first 4 of the second; offsets anywhere in those 8 clusters; each slice cached or not; L1 entry empty or not
// @assume get_l1_entry / get_l2_slice_slow by contract (the latter's body: c02_l2_slice_load)
// @funcs Qcow2Dev::get_l2_entry SplitGuestOffset::{l2_slice_key,l2_slice_index} L2Table::get_entry
// @stub alloc::fmt::format -> String::new()
#[kani::proof]
#[kani::unwind(6)]
#[kani::stub(std::fmt::format, fmt_stub2)]
fn c01_l2_entry_lookup_single() {
    let cb = 16u32;
    let info = mk_info(cb, 4, 1u64 << 40, 9, Some((9, 1024)), Some((10, 2048)), false, false, false);
    let mut env = KEnv::new(info);
    let cs = 1u64 << cb;
    let base: usize = 5;
    let (a, b, w): ([u64; 4], [u64; 4], [u64; 4]) = entries_any();
    let mut s0 = L2Table::new(Some(0x10000), 512, cb as usize);
    let mut s1 = L2Table::new(Some(0x10200), 512, cb as usize);
    let mut i = 0;
    while i < 4 {
        s0.set(60 + i, L2Entry(a[i]));
        s0.set(i, L2Entry(w[i]));
        s1.set(i, L2Entry(b[i]));
        i += 1;
    }
    let cached: [bool; 2] = [kani::any(), kani::any()];
    env.l2cache = KCache { base, s: [Some(KHandle::new(s0)), Some(KHandle::new(s1))], cached };
    let l1_empty: bool = kani::any();
    env.l1_entry = unsafe { core::mem::transmute::<u64, L1Entry>(if l1_empty { 0 } else { 0x8000_0000_0005_0000u64 }) };
    // any byte offset in the 8 clusters around the slice boundary
    let idx: u64 = kani::any();
    kani::assume(idx >= 60 && idx < 68);
    let in_off: u64 = kani::any();
    kani::assume(in_off < cs);
    let off = ((((base as u64) << 6) + idx) << cb) + in_off;

    let r = env.seg_gs(off);

    // the spec's view: which slice, which slot
    let key = ((off >> cb) >> 6) as usize;
    let slot = (spec::l2_index(off, cb) & 63) as usize;
    assert!(key == base + (idx >= 64) as usize && slot == (idx & 63) as usize);
    let want = if idx < 64 { a[(idx - 60) as usize] } else { b[(idx - 64) as usize] };
    let in_cache = cached[(idx >= 64) as usize];
    match &r {
        Ok(e) => {
            if !in_cache && l1_empty {
                assert!(e.0 == 0);
            } else {
                assert!(e.0 == want);
            }
        }
        Err(_) => assert!(false),
    }
    kani::cover!(idx >= 64 && !in_cache && !l1_empty && want != 0);
    kani::cover!(idx < 64 && in_cache && want != 0);
    kani::cover!(!in_cache && l1_empty);
    core::mem::forget(r);
    core::mem::forget(env);
}
