// Harnesses over segments lifted from the COW / compressed paths; child of `crate::dev`.
// @module-needs env header seg:X0 seg:C0
#![allow(dead_code, unused_imports)]
use super::*;
use crate::dev::verif_env::*;
use crate::meta::verif_header::{any_geo, info_of, Geo};
use crate::meta::{L2Entry, Mapping, MappingSource, SplitGuestOffset};
use crate::verif_spec as spec;

fn fmt_stub2(_a: core::fmt::Arguments<'_>) -> String {
    String::new()
}

// @harness c10_compressed_release
// @props C10 C03 C08
// @tier quick
// @cost 17
// @timeout 900
// @needs X0
// @desc the release of a replaced compressed cluster in do_write_cow (the `if compressed {..}` block, lifted verbatim) for EVERY spec-valid compressed L2 entry and every cluster size: does not panic and hands to free_clusters exactly the host clusters the descriptor occupies per the specification -- none missing (leak), none extra (under-count of a neighbour)
// @bounds raw: every spec-valid compressed entry; full symbolic geometry; the mapping is produced by the real into_mapping
// @funcs Qcow2Dev::do_write_cow (Ok arm, compressed release) L2Entry::from_mapping L2Entry::compressed_range Qcow2Info::cluster_round_down
// @stub alloc::fmt::format -> String::new()
#[kani::proof]
#[kani::stub(std::fmt::format, fmt_stub2)]
fn c10_compressed_release() {
    let g = any_geo();
    let env = KEnv::new(info_of(&g, 1u64 << 62, false, false, false));
    let raw: u64 = kani::any();
    kani::assume(raw & spec::COMPRESSED != 0 && spec::l2_valid(raw, g.cb));
    let m = L2Entry(raw).into_mapping(&env.info, &SplitGuestOffset(0));
    let r = env.seg_x0(&m);
    assert!(r.is_ok());
    let (first, cnt) = spec::l2_allocation(raw, g.cb);
    assert!(env.nrec.get() == 1);
    let f = env.get_rec(0);
    assert!(f.kind == K_FREE);
    assert!(f.off == first);
    assert!(f.len as u64 == cnt);
    let d = spec::decode_l2(raw, g.cb);
    kani::cover!((d.host + d.comp_len) & (spec::cluster_size(g.cb) - 1) == 0, "compressed data ends exactly at a cluster boundary");
    kani::cover!(cnt == 2);
    kani::cover!(cnt == 1);
    core::mem::forget(r);
    core::mem::forget(m);
    core::mem::forget(env);
}

// @harness c16_compressed_read_request
// @props C16 C14 C09
// @tier quick
// @cost 14
// @timeout 900
// @needs C0
// @desc the request geometry of do_read_compressed (everything before the bounce buffer is allocated, lifted verbatim) for ANY compressed descriptor (any byte-granular host offset and length the entry format can express) and every block size: no overflow; the request offset and length are multiples of the block size, length > 0, the window covers [offset, offset+len) of the descriptor, and the slice pad..pad+len taken from the bounce buffer lies inside it
// @bounds raw: every 64-bit entry with the compressed bit; full symbolic geometry (block bits 9..=12)
// @funcs Qcow2Dev::do_read_compressed (prologue) IntAlignment::{align_down,align_up} L2Entry::into_mapping
// @stub alloc::fmt::format -> String::new()
#[kani::proof]
#[kani::stub(std::fmt::format, fmt_stub2)]
fn c16_compressed_read_request() {
    let g = any_geo();
    let env = KEnv::new(info_of(&g, 1u64 << 62, false, false, false));
    let raw: u64 = kani::any();
    kani::assume(raw & spec::COMPRESSED != 0);
    let m = L2Entry(raw).into_mapping(&env.info, &SplitGuestOffset(0));
    let d = spec::decode_l2(raw, g.cb);
    let r = env.seg_c0(m, 0, KBuf::new(512));
    assert!(r.is_ok() && env.passed.get());
    let o = env.out.get();
    let (aligned_off, pad, aligned_len) = (o[0], o[1], o[2]);
    let bs = 1u64 << g.bs;
    assert!(aligned_off % bs == 0 && aligned_len % bs == 0 && aligned_len > 0);
    assert!(aligned_off <= d.host && d.host + d.comp_len <= aligned_off + aligned_len);
    assert!(pad == d.host - aligned_off && pad < bs);
    assert!(pad + d.comp_len <= aligned_len);
    assert!(aligned_len <= d.comp_len + 2 * bs);
    kani::cover!(pad != 0 && g.bs == 12);
    kani::cover!(d.comp_len > spec::cluster_size(g.cb));
    core::mem::forget(r);
    core::mem::forget(env);
}
