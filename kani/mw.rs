// Harnesses over the write-mapping drivers (populate_write_mappings, make_multiple_write_mappings,
// populate_single_write_mapping), lifted from src/dev/write.rs; child of `crate::dev::write` (sees the private need_make_mapping).
// @module-needs env header spec write seg:MW
#![allow(dead_code, unused_imports)]
use super::*;
use crate::dev::verif_env::*;
use crate::meta::verif_header::mk_info;
use crate::meta::{L2Entry, SplitGuestOffset};
use crate::verif_spec as spec;

fn fmt_stub_mw(_a: core::fmt::Arguments<'_>) -> String {
    String::new()
}

const CB: u32 = 16;
const BASE: u64 = 0x40; // first guest cluster of the modelled window

/// entry already on file for window cluster i / entry a mapping call creates for it
fn old_tag(i: u64) -> u64 {
    spec::COPIED | ((0x100 + i) << CB)
}
fn new_tag(i: u64) -> u64 {
    spec::COPIED | ((0x200 + i) << CB)
}

impl KEnv {
    /// get_l2_entry(off): the entry of the cluster `off` lies in (window of MAX_REC clusters)
    pub(crate) fn k_mw_get_l2_entry(&self, off: u64) -> KResult<L2Entry> {
        self.rec(Rec { kind: K_GET_L1, entry: 0, off, len: 0, buf_start: 0, flags: 0 });
        if self.sl.fail_l1 {
            return Err(KErr);
        }
        let c = (off >> CB) - BASE;
        assert!(c < 4, "harness bound: lookup outside the modelled window");
        Ok(self.entries[c as usize])
    }
    /// __make_multiple_write_mapping by CONTRACT (decided on its lifted body by
    /// c01_multi_write_mapping): maps `done` >= 1 clusters starting at `start`, not beyond `end`,
    /// appends their entries in order and returns `done`
    pub(crate) fn k_mw_make_multiple(&self, start: u64, end: u64, l2_entries: &mut KVec<L2Entry>) -> KResult<usize> {
        let left = ((end - start) >> CB) as usize;
        let done: usize = kani::any();
        kani::assume(done >= 1 && done <= left);
        self.rec(Rec { kind: K_POPULATE, entry: 0, off: start, len: (end - start) as usize, buf_start: 0, flags: done as u32 });
        if self.sl.fail_add {
            return Err(KErr);
        }
        let c = (start >> CB) - BASE;
        if done >= 1 { l2_entries.push(L2Entry(new_tag(c))); }
        if done >= 2 { l2_entries.push(L2Entry(new_tag(c + 1))); }
        if done >= 3 { l2_entries.push(L2Entry(new_tag(c + 2))); }
        if done >= 4 { l2_entries.push(L2Entry(new_tag(c + 3))); }
        Ok(done)
    }
    pub(crate) fn k_mw_make_single(&self, off: u64) -> KResult<L2Entry> {
        self.rec(Rec { kind: K_POPULATE, entry: 0, off, len: 0, buf_start: 0, flags: 1 });
        if self.sl.fail_add {
            return Err(KErr);
        }
        Ok(L2Entry(new_tag((off >> CB) - BASE)))
    }
}

fn mw_env() -> KEnv {
    let info = mk_info(CB, 4, 1u64 << 40, 9, Some((12, 8192)), Some((9, 1024)), false, false, false);
    let mut env = KEnv::new(info);
    // each window cluster either has a mapping on file or is unallocated
    let m: [bool; 4] = kani::any();
    env.entries[0] = L2Entry(if m[0] { old_tag(0) } else { 0 });
    env.entries[1] = L2Entry(if m[1] { old_tag(1) } else { 0 });
    env.entries[2] = L2Entry(if m[2] { old_tag(2) } else { 0 });
    env.entries[3] = L2Entry(if m[3] { old_tag(3) } else { 0 });
    env.sl.fail_l1 = kani::any();
    env.sl.fail_add = kani::any();
    env
}

// @harness c01_write_mappings_driver
// @props C01 C03
// @tier quick
// @cost 20
// @timeout 900
// @needs MW
// @desc whole populate_write_mappings + make_multiple_write_mappings (lifted): for every request inside a 4-cluster window the range handed on is the outward cluster rounding of the request, and the list that comes back has exactly ONE entry per cluster of that range, in order: the entry found on file where the cluster needs no new mapping, otherwise the entry the mapping call produced for that very cluster (never a stale entry for a cluster that needs a mapping, never an entry of another cluster, nothing skipped or doubled however short each mapping call's grant is); the mapping call is always started AT the first cluster that needs one; an error of the lookup or of the mapping call is returned
// @bounds 64 KiB clusters; requests of 1 byte .. 4 clusters anywhere inside a 4-cluster window; each cluster mapped or unallocated; every mapping call grants 1..=remaining clusters (symbolic); lookups / mapping calls succeed or fail
// @assume get_l2_entry by contract (entry of that cluster); __make_multiple_write_mapping by contract (its body: c01_multi_write_mapping); need_make_mapping is the real function (c01_need_make_mapping)
// @funcs Qcow2Dev::populate_write_mappings Qcow2Dev::make_multiple_write_mappings Qcow2Dev::need_make_mapping L2Entry::into_mapping Qcow2Info::{cluster_round_down,cluster_round_up}
// @stub alloc::fmt::format -> String::new()
#[kani::proof]
#[kani::unwind(10)]
#[kani::stub(std::fmt::format, fmt_stub_mw)]
fn c01_write_mappings_driver() {
    let env = mw_env();
    let cs = 1u64 << CB;
    let off: u64 = kani::any();
    let len: usize = kani::any();
    kani::assume(off >= BASE * cs && off < (BASE + 4) * cs && len >= 1 && len as u64 <= 4 * cs);
    kani::assume(off + len as u64 <= (BASE + 4) * cs);

    let r = env.seg_mw_populate(off, len);

    let first = (off >> CB) - BASE;
    let last = ((off + len as u64 - 1) >> CB) - BASE;
    let n = (last - first + 1) as usize;
    let needs = |i: u64| -> bool {
        let e = env.entries[i as usize];
        let m = e.into_mapping(&env.info, &SplitGuestOffset((BASE + i) << CB));
        let nm = Qcow2Dev::<super::verif_write::KIo>::need_make_mapping(&m, &env.info);
        core::mem::forget(m);
        nm
    };
    match &r {
        Ok(v) => {
            assert!(v.len() == n);
            let k: usize = kani::any();
            kani::assume(k < n);
            let i = first + k as u64;
            let got = v.iter().nth(k).unwrap().0;
            assert!(got == new_tag(i) || (!needs(i) && got == old_tag(i)));
            assert!(!env.sl.fail_l1 && (!env.sl.fail_add || env.count(K_POPULATE) == 0));
        }
        Err(_) => {
            assert!(env.sl.fail_l1 || env.sl.fail_add);
        }
    }
    // every mapping call starts at a cluster boundary inside the range, at a cluster that needs it
    if env.count(K_POPULATE) > 0 {
        let p = env.get_rec(env.first(K_POPULATE));
        assert!(p.off & (cs - 1) == 0);
        let c = (p.off >> CB) - BASE;
        assert!(c >= first && c <= last && needs(c));
        assert!(p.off + p.len as u64 == (BASE + last + 1) << CB);
    }
    kani::cover!(r.is_ok() && n == 4 && env.count(K_POPULATE) == 2);
    kani::cover!(r.is_ok() && n == 3 && env.count(K_POPULATE) == 0);
    kani::cover!(r.is_err() && !env.sl.fail_l1);
    core::mem::forget(r);
    core::mem::forget(env);
}

// @harness c01_single_write_mapping_driver
// @props C01 C03
// @tier quick
// @cost 5
// @timeout 600
// @needs MW
// @desc whole populate_single_write_mapping (lifted): the entry on file is returned untouched when the cluster needs no new mapping, otherwise exactly one mapping call is made for that offset and ITS entry is returned; errors are handed on
// @bounds 64 KiB clusters, any offset inside a 4-cluster window, cluster mapped or unallocated, lookup / mapping succeed or fail
// @assume get_l2_entry and make_single_write_mapping by contract (the latter's body: c03_single_write_mapping)
// @funcs Qcow2Dev::populate_single_write_mapping Qcow2Dev::need_make_mapping L2Entry::into_mapping
// @stub alloc::fmt::format -> String::new()
#[kani::proof]
#[kani::unwind(10)]
#[kani::stub(std::fmt::format, fmt_stub_mw)]
fn c01_single_write_mapping_driver() {
    let env = mw_env();
    let cs = 1u64 << CB;
    let off: u64 = kani::any();
    kani::assume(off >= BASE * cs && off < (BASE + 4) * cs);
    let r = env.seg_mw_single(off);
    let i = (off >> CB) - BASE;
    let e = env.entries[i as usize];
    let m = e.into_mapping(&env.info, &SplitGuestOffset(off));
    let need = Qcow2Dev::<super::verif_write::KIo>::need_make_mapping(&m, &env.info);
    core::mem::forget(m);
    match &r {
        Ok(x) => {
            if need {
                assert!(x.0 == new_tag(i) && env.count(K_POPULATE) == 1);
                assert!(env.get_rec(env.first(K_POPULATE)).off == off);
            } else {
                assert!(x.0 == e.0 && env.count(K_POPULATE) == 0);
            }
        }
        Err(_) => assert!(env.sl.fail_l1 || (need && env.sl.fail_add)),
    }
    if !env.sl.fail_l1 && !(need && env.sl.fail_add) {
        assert!(r.is_ok());
    }
    kani::cover!(r.is_ok() && need);
    kani::cover!(r.is_ok() && !need);
    core::mem::forget(r);
    core::mem::forget(env);
}
