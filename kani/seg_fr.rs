// Harnesses over flush_refcount / flush_mapping (lifted from src/dev/cache.rs): which table, cache and
// key function each hands to flush_meta_generic; child of `crate::dev`.
// @module-needs env header seg:FR seg:K0
#![allow(dead_code, unused_imports)]
use super::*;
use crate::dev::verif_env::*;
use crate::meta::verif_header::mk_info;
use crate::meta::{L1Table, RefTable, Table};

fn fmt_stub_fr(_a: core::fmt::Arguments<'_>) -> String {
    String::new()
}

// @harness c02_flush_drivers
// @props C02 C04 C17
// @tier quick
// @cost 10
// @timeout 900
// @needs FR K0
// @desc whole flush_refcount and flush_mapping (lifted): flush_refcount repeats flush_meta_generic on the REFCOUNT TABLE with the REFCOUNT-BLOCK cache and the refcount key function (rb_slice_key_of_rt_off, lifted) until it reports done; flush_mapping does the same with the L1 table it is given, the L2 cache and l2_slice_key_of_l1_off; every pass gets the same triple, an error of a pass ends the loop and is returned, and the loop stops at the first pass that reports done
// @bounds different slice sizes for the two caches (4 KiB clusters, L2 slices 1 KiB, refcount slices 512 B); 0..=2 further passes before "done"; pass fails or not; key functions compared at a symbolic top-table byte offset
// @assume flush_meta_generic by contract here (its body: c16_top_table_flush_generic)
// @funcs Qcow2Dev::flush_refcount Qcow2Dev::flush_mapping Qcow2Dev::rb_slice_key_of_rt_off Qcow2Dev::l2_slice_key_of_l1_off
// @stub alloc::fmt::format -> String::new()
#[kani::proof]
#[kani::unwind(10)]
#[kani::stub(std::fmt::format, fmt_stub_fr)]
fn c02_flush_drivers() {
    let info = mk_info(12, 4, 1u64 << 40, 9, Some((10, 2048)), Some((9, 1024)), false, false, false);
    let mut env = KEnv::new(info);
    env.fr_reftable = Some(KLock::new(RefTable::new_empty(Some(0x1000), 512)));
    let l1 = L1Table::new(Some(0x3000), 1024, 128, 9);
    let passes: usize = kani::any();
    kani::assume(passes <= 2);
    env.passes_left.set(passes);
    let fail: bool = kani::any();
    env.fail_write.set(fail);
    let probe: u64 = kani::any();
    kani::assume(probe < (1u64 << 20) && probe % 8 == 0);
    env.fr_probe.set(probe);
    let refcount_side: bool = kani::any();

    let r = if refcount_side { env.seg_fr_refcount() } else { env.seg_fr_mapping(&l1) };

    let n = env.nrec.get();
    assert!(env.count(K_FLUSH_MAPPING) == n);
    if fail {
        assert!(r.is_err() && n == 1);
    } else {
        assert!(r.is_ok() && n == passes + 1);
    }
    // every pass got the right table, cache and key function
    let k: usize = kani::any();
    kani::assume(k < n);
    let p = env.get_rec(k);
    if refcount_side {
        assert!(p.entry == 0x1000 && p.len == 64 && p.flags == KWhich::Rb as u32);
        assert!(p.off == env.seg_k0_rb(probe) as u64);
    } else {
        assert!(p.entry == 0x3000 && p.len == 128 && p.flags == KWhich::L2 as u32);
        assert!(p.off == env.seg_k0_l2(probe) as u64);
    }
    kani::cover!(refcount_side && !fail && passes == 2 && env.seg_k0_rb(probe) != env.seg_k0_l2(probe));
    kani::cover!(!refcount_side && !fail && passes == 1);
    kani::cover!(fail);
    core::mem::forget(r);
    core::mem::forget(l1);
    core::mem::forget(env);
}
