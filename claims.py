# property -> claim text (edited as checks are built); NA = reasons for unclaimed properties
CLAIMS = {
 "C15": dict(ref="DESIGN.md §3 C15",
   technique="bounded model checking (Kani/CBMC+SAT) of the real codec functions against an independent spec model, symbolic over all geometries",
   text="Bounded model checking of the real encode/decode and index functions against an independent model of the qcow2 specification: the SAT solver decides each assertion for ALL 64-bit entry values, all cluster sizes 2^9..2^21, all refcount widths and all slice contents within the stated slice length. Codec fidelity is a per-function input/output property, so a solver verdict over the whole input space of each function is the strongest level this technique offers short of an unbounded proof."),
}
NA = {
 "C01": "check not built yet",
 "C02": "needs cache flush / eviction / reopen through the async device and HashMap LRU: not symbolically executable with the installed engines (DESIGN.md §1 P3,P9)",
 "C03": "check not built yet",
 "C04": "the property is the order of awaited backend requests and fsyncs and the set of crash images; the async device cannot be executed symbolically (DESIGN.md §1 P3,P4)",
 "C05": "same as C04 plus crash images after sync points",
 "C06": "interleavings of tasks over async locks; Kani has no concurrency model and a single poll of the device state machine does not finish symbolic execution (P4)",
 "C07": "deadlock/livelock freedom over async locks under all schedules: not encodable (P4)",
 "C08": "check not built yet",
 "C09": "check not built yet",
 "C10": "check not built yet",
 "C11": "check not built yet",
 "C12": "check not built yet",
 "C13": "check not built yet",
 "C14": "check not built yet",
 "C16": "check not built yet",
 "C17": "error propagation, dirty-flag handling and header rollback are async control flow over a failing backend: not encodable",
 "C18": "check not built yet",
 "C19": "pread/pwrite/fallocate/tokio/io_uring are syscalls and FFI: not symbolically executable",
 "C20": "convert/check are I/O loops in the binary crate over std::fs/tokio-uring; the formatter part is decided under C09",
}
