"""Await-free segment lifter (DESIGN.md §2.3).

Takes text out of /repo's *current* source (the scratch copy the check just made), applies the
listed textual rewrites (awaited environment calls -> synchronous shims on KEnv), and emits it
verbatim as the body of a method on the environment shim `KEnv`, in a module that is a child of
`crate::dev`.  Fails closed: an anchor that does not match exactly once, a rewrite that does not
apply, or a remaining `.await` makes the segment "not liftable" (=> inconclusive, never an alarm).
"""
import os, re, hashlib, json

HERE = os.path.dirname(os.path.abspath(__file__))


class LiftError(Exception):
    pass


# ------------------------------------------------------------------------------------------
# a small Rust lexer: enough to match braces and split statements, skipping strings/comments
# ------------------------------------------------------------------------------------------
def scan(text, start=0, end=None):
    """yield (pos, ch) for code characters only (not inside strings, chars, comments)"""
    i = start
    n = len(text) if end is None else end
    while i < n:
        c = text[i]
        if text.startswith("//", i):
            j = text.find("\n", i)
            i = n if j < 0 else j
            continue
        if text.startswith("/*", i):
            depth = 1
            i += 2
            while i < n and depth:
                if text.startswith("/*", i):
                    depth += 1
                    i += 2
                elif text.startswith("*/", i):
                    depth -= 1
                    i += 2
                else:
                    i += 1
            continue
        if c == '"':
            i += 1
            while i < n and text[i] != '"':
                if text[i] == "\\":
                    i += 1
                i += 1
            i += 1
            continue
        if c == "r" and re.match(r'r#*"', text[i:i + 8]) and (i == 0 or not (text[i - 1].isalnum() or text[i - 1] == "_")):
            m = re.match(r'r(#*)"', text[i:])
            close = '"' + m.group(1)
            j = text.find(close, i + len(m.group(0)))
            i = n if j < 0 else j + len(close)
            continue
        if c == "'":
            # char literal or lifetime
            m = re.match(r"'(\\.[^']*|[^'\\])'", text[i:])
            if m:
                i += len(m.group(0))
                continue
            i += 1
            continue
        yield i, c
        i += 1


def match_brace(text, open_pos):
    assert text[open_pos] == "{"
    depth = 0
    for i, c in scan(text, open_pos):
        if c == "{":
            depth += 1
        elif c == "}":
            depth -= 1
            if depth == 0:
                return i
    raise LiftError("unbalanced braces")


def find_fn(text, name):
    ms = list(re.finditer(r"\bfn\s+%s\s*(<[^>]*>)?\s*\(" % re.escape(name), text))
    if len(ms) != 1:
        raise LiftError("function %s found %d times" % (name, len(ms)))
    # the body is the first '{' at paren depth 0 after the signature
    depth = 0
    for i, c in scan(text, ms[0].end() - 1):
        if c in "([":
            depth += 1
        elif c in ")]":
            depth -= 1
        elif c == "{" and depth == 0:
            return i, match_brace(text, i)
        elif c == ";" and depth == 0:
            raise LiftError("function %s has no body" % name)
    raise LiftError("no body for %s" % name)


BLOCK_KW = re.compile(r"(if|while|for|loop|match|unsafe)\b|\{")


def split_statements(text, lo, hi):
    """depth-0 statements of the block text[lo:hi] -> list of (start, end) (end exclusive)"""
    stmts = []
    i = lo
    cur = None
    depth = 0
    blocklike = False
    it = scan(text, lo, hi)
    for pos, c in it:
        if cur is None:
            if c.isspace():
                continue
            cur = pos
            blocklike = bool(BLOCK_KW.match(text, pos))
            # attributes / labels are rare here; ignore
        if c in "([{":
            depth += 1
        elif c in ")]}":
            depth -= 1
            if c == "}" and depth == 0 and blocklike:
                rest = text[pos + 1:hi]
                if re.match(r"\s*else\b", rest):
                    continue
                stmts.append((cur, pos + 1))
                cur = None
        elif c == ";" and depth == 0:
            stmts.append((cur, pos + 1))
            cur = None
    if cur is not None:
        stmts.append((cur, hi))
    return stmts


def uniq_stmt(text, stmts, rx, what):
    # match against the statement head (its first line) so nested text cannot match
    hits = [k for k, (s, e) in enumerate(stmts) if re.search(rx, text[s:e].split("\n", 1)[0])]
    if len(hits) != 1:
        raise LiftError("%s anchor /%s/ matches %d statements" % (what, rx, len(hits)))
    return hits[0]


def lift(repo, spec):
    path = os.path.join(repo, spec["file"])
    text = open(path).read()
    lo, hi = find_fn(text, spec["fn"])
    lo += 1
    for rx in spec.get("scope", []):
        ms = [m for m in re.finditer(rx, text[lo:hi])]
        if len(ms) != 1:
            raise LiftError("scope /%s/ matches %d times" % (rx, len(ms)))
        op = lo + ms[0].end() - 1
        if text[op] != "{":
            raise LiftError("scope /%s/ must end at '{'" % rx)
        cl = match_brace(text, op)
        lo, hi = op + 1, cl
    stmts = split_statements(text, lo, hi)
    start, end = spec.get("start", "FULL"), spec.get("end")
    if start == "FULL":
        a, b = 0, len(stmts)
    elif start == "PROLOGUE":
        a = 0
        b = None
        for k, (s, e) in enumerate(stmts):
            if ".await" in strip_noncode(text[s:e]):
                b = k
                break
        if b is None:
            raise LiftError("PROLOGUE: no awaiting statement found")
        if end:
            b2 = uniq_stmt(text, stmts, end, "end")
            if b2 > b:
                raise LiftError("PROLOGUE end anchor lies after the first await")
            b = b2
    else:
        a = uniq_stmt(text, stmts, start, "start")
        if end is None:
            b = a + 1
        elif end == "END":
            b = len(stmts)
        else:
            b = uniq_stmt(text, stmts, end, "end")
            if spec.get("end_inclusive"):
                b += 1
        if b <= a:
            raise LiftError("end anchor before start anchor")
    if b == a:
        raise LiftError("empty segment")
    seg = text[stmts[a][0]:stmts[b - 1][1]]
    raw = seg
    for name in spec.get("await_calls", []):
        seg, n = shim_calls(seg, name)
        if n < 1:
            raise LiftError("environment call self.%s(..) not found: source changed shape" % name)
    for name in spec.get("await_calls_opt", []):
        seg, n = shim_calls(seg, name)
    for rw in spec.get("rewrites", []):
        rx, rep = rw[0], rw[1]
        mn = rw[2] if len(rw) > 2 else 1
        seg, n = re.subn(rx, rep, seg)
        if n < mn:
            raise LiftError("rewrite /%s/ applied %d times (< %d): source changed shape" % (rx, n, mn))
    code = strip_noncode(seg)
    if ".await" in code:
        raise LiftError("segment still awaits after rewrites: " +
                        [l.strip() for l in code.splitlines() if ".await" in l][0])
    for bad in spec.get("forbid", ["self.file"]):
        if bad in code:
            raise LiftError("segment touches %s" % bad)
    uses = [l for l in text.splitlines() if re.match(r"use\s", l)]
    # multi-line use statements
    uses = re.findall(r"^use\s[^;]*;", text, re.M)
    return raw, seg, uses


def match_paren(text, open_pos):
    depth = 0
    for i, c in scan(text, open_pos):
        if c in "([{":
            depth += 1
        elif c in ")]}":
            depth -= 1
            if depth == 0:
                return i
    raise LiftError("unbalanced parentheses")


def shim_calls(seg, name):
    """R-await / R-call: `self.NAME(args).await` and `self.NAME(args)` -> `self.k_NAME(args)`"""
    n = 0
    pos = 0
    pat = re.compile(r"\bself\s*\.\s*%s\s*\(" % re.escape(name))
    while True:
        m = pat.search(seg, pos)
        if not m:
            break
        op = m.end() - 1
        cl = match_paren(seg, op)
        rest = seg[cl + 1:]
        ma = re.match(r"\s*\.await", rest)
        tail = rest[ma.end():] if ma else rest
        repl = "self.k_%s(" % name
        seg = seg[:m.start()] + repl + seg[op + 1:cl + 1] + tail
        pos = m.start() + len(repl)
        n += 1
    return seg, n


def strip_noncode(seg):
    out = []
    last = 0
    buf = list(" " * len(seg))
    for i, c in scan(seg):
        buf[i] = c
    # keep newlines
    for i, c in enumerate(seg):
        if c == "\n":
            buf[i] = "\n"
    return "".join(buf)


def seg_module_path(spec, name):
    """segment modules are children of src/dev/mod.rs unless the spec names another parent file"""
    parent = spec.get("parent", "src/dev/mod.rs")
    d = os.path.dirname(parent)
    stem = os.path.basename(parent)[:-3]
    if stem not in ("mod", "lib"):
        d = os.path.join(d, stem)
    return os.path.join(d, "verif_seg_%s.rs" % name.lower())


def generate(repo, names):
    specs = load_specs()
    status = {}
    for name in names:
        if name not in specs:
            status[name] = {"ok": False, "err": "unknown segment"}
            continue
        spec = specs[name]
        try:
            parts = spec.get("parts") or [spec]
            fns = []
            sha = hashlib.sha1()
            uses_all = []
            for p in parts:
                q = dict(spec)
                q.update(p)
                raw, seg, uses = lift(repo, q)
                sha.update(raw.encode())
                uses_all += uses
                fns.append("    %s {\n%s\n// ---- lifted verbatim from %s::%s ----\n%s\n// ---- end of lifted text ----\n%s\n    }\n" % (
                    q["sig"], q.get("pre", ""), q["file"], q["fn"], seg, q.get("post", "")))
            seen = set()
            names = set()
            uses_u = []
            for u in uses_all:
                if u in seen or "super::*" in u:
                    continue
                seen.add(u)
                # segments lifted from several files: drop names an earlier `use` already brought in
                m = re.match(r"^use\s+([\w:]+)::\{([^}]*)\};\s*$", u.strip())
                if m:
                    items = [x.strip() for x in m.group(2).split(",") if x.strip()]
                    keep = [x for x in items if x.split(" as ")[-1].strip() not in names]
                    names.update(x.split(" as ")[-1].strip() for x in keep)
                    if not keep:
                        continue
                    u = "use %s::{%s};" % (m.group(1), ", ".join(keep))
                else:
                    m2 = re.match(r"^use\s+[\w:]+::(\w+);\s*$", u.strip())
                    if m2:
                        if m2.group(1) in names:
                            continue
                        names.add(m2.group(1))
                uses_u.append(u)
            out = ("// GENERATED by /verif/lib/gen_segments.py from the current source; do not edit\n"
                   "#![allow(unused, unused_mut, unused_variables, unused_imports, unused_assignments, unreachable_code, "
                   "clippy::all)]\n"
                   "use super::*;\nuse crate::dev::verif_env::*;\n" +
                   ("" if spec.get("parent") else "\n".join(uses_u)) + "\n" +
                   spec.get("uses", "") + "\n\nimpl KEnv {\n" + "\n".join(fns) + "}\n")
            dst = os.path.join(repo, seg_module_path(spec, name))
            os.makedirs(os.path.dirname(dst), exist_ok=True)
            with open(dst, "w") as f:
                f.write(out)
            status[name] = {"ok": True, "sha": sha.hexdigest()[:12]}
        except LiftError as e:
            status[name] = {"ok": False, "err": str(e)}
        except FileNotFoundError as e:
            status[name] = {"ok": False, "err": "file missing: %s" % e}
    return status


def load_specs():
    import importlib.util
    p = os.path.join(os.path.dirname(HERE), "segments.py")
    sp = importlib.util.spec_from_file_location("segments", p)
    m = importlib.util.module_from_spec(sp)
    sp.loader.exec_module(m)
    return m.SEGMENTS


if __name__ == "__main__":
    import sys
    repo = sys.argv[1]
    names = sys.argv[2:] or sorted(load_specs())
    st = generate(repo, names)
    print(json.dumps(st, indent=1))
