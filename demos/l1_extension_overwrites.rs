#[cfg(test)]
mod l1ext {
    use qcow2_rs::dev::*;
    use qcow2_rs::helpers::Qcow2IoBuf;
    use qcow2_rs::qcow2_default_params;
    use qcow2_rs::utils::{make_temp_qcow2_img, qcow2_setup_dev_tokio};
    use std::io::{Read, Seek, SeekFrom, Write};
    use tokio::runtime::Runtime;

    fn pat(len: usize, p: u8) -> Qcow2IoBuf<u8> {
        let mut buf = Qcow2IoBuf::<u8>::new(len);
        for b in &mut buf[..] { *b = p; }
        buf
    }

    #[test]
    fn l1_header_extension_stays_in_owned_clusters() {
        let rt = Runtime::new().unwrap();
        rt.block_on(async {
            let img = make_temp_qcow2_img(1 << 20, 9, 4);
            let path = img.path().to_path_buf();
            // header lists 32 L1 entries (one 512-byte cluster); enlarge the virtual size to 4 MiB
            {
                let mut f = std::fs::OpenOptions::new().read(true).write(true).open(&path).unwrap();
                let mut h = [0u8; 112];
                f.read_exact(&mut h).unwrap();
                eprintln!("l1_size {:?} l1_off {:?} size {:?}", &h[36..40], &h[40..48], &h[24..32]);
                f.seek(SeekFrom::Start(24)).unwrap();
                f.write_all(&(4u64 << 20).to_be_bytes()).unwrap();
                eprintln!("file len {}", f.metadata().unwrap().len());
            }
            let params = qcow2_default_params!(false, false);
            let dev = qcow2_setup_dev_tokio(&path, &params).await.unwrap();
            let a = pat(4096, 0xa5);
            dev.write_at(&a, 0).await.unwrap();
            let b = pat(4096, 0x5a);
            dev.write_at(&b, 3 << 20).await.unwrap();
            dev.flush_meta().await.unwrap();
            drop(dev);
            let dev = qcow2_setup_dev_tokio(&path, &params).await.unwrap();
            let mut r = Qcow2IoBuf::<u8>::new(4096);
            dev.read_at(&mut r, 0).await.unwrap();
            assert!(r.iter().all(|x| *x == 0xa5), "data at 0 damaged");
            dev.read_at(&mut r, 3 << 20).await.unwrap();
            assert!(r.iter().all(|x| *x == 0x5a), "data at 3M damaged");
        });
    }
}
