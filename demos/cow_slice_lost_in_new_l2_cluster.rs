//! Demonstration for the seeded change (C10): copy-on-write and reads through
//! a backing chain of depth 2 (top -> mid -> base).
//!
//! Everything runs on an in-memory backend, the backing relation is
//! hand-crafted into the header cluster (qemu-img isn't needed).

use qcow2_rs::dev::{Qcow2Dev, Qcow2DevParams};
use qcow2_rs::error::Qcow2Result;
use qcow2_rs::helpers::Qcow2IoBuf;
use qcow2_rs::ops::Qcow2IoOps;
use qcow2_rs::utils::{make_temp_qcow2_img, qcow2_alloc_dev};
use std::cell::{Cell, RefCell};
use std::path::Path;
use std::rc::Rc;

const CLUSTER_BITS: usize = 16;
const CLUSTER_SIZE: usize = 1 << CLUSTER_BITS;
const VIRT_SIZE: u64 = 1 << 20;

/// One image file held in ram, plus counters of the modifying requests
#[derive(Clone)]
struct MemImg {
    data: Rc<RefCell<Vec<u8>>>,
    writes: Rc<Cell<usize>>,
    fallocates: Rc<Cell<usize>>,
}

impl MemImg {
    fn new_qcow2(size: u64, backing_name: Option<&str>) -> Self {
        let f = make_temp_qcow2_img(size, CLUSTER_BITS, 4);
        let mut data = std::fs::read(f.path()).unwrap();

        if let Some(name) = backing_name {
            // the name goes into the header cluster, behind the (empty) list
            // of header extensions
            let off = 512usize;
            data[off..off + name.len()].copy_from_slice(name.as_bytes());
            // backing_file_offset: bytes 8..16, backing_file_size: 16..20
            data[8..16].copy_from_slice(&(off as u64).to_be_bytes());
            data[16..20].copy_from_slice(&(name.len() as u32).to_be_bytes());
        }

        MemImg {
            data: Rc::new(RefCell::new(data)),
            writes: Rc::new(Cell::new(0)),
            fallocates: Rc::new(Cell::new(0)),
        }
    }

    fn snapshot(&self) -> Vec<u8> {
        self.data.borrow().clone()
    }

    fn modifications(&self) -> usize {
        self.writes.get() + self.fallocates.get()
    }
}

struct MemIo(MemImg);

impl Qcow2IoOps for MemIo {
    async fn read_to(&self, offset: u64, buf: &mut [u8]) -> Qcow2Result<usize> {
        let data = self.0.data.borrow();
        let off = offset as usize;

        // behaves like a sparse file: everything behind the end reads as zero
        buf.fill(0);
        if off < data.len() {
            let n = std::cmp::min(buf.len(), data.len() - off);
            buf[..n].copy_from_slice(&data[off..off + n]);
        }
        Ok(buf.len())
    }

    async fn write_from(&self, offset: u64, buf: &[u8]) -> Qcow2Result<()> {
        let mut data = self.0.data.borrow_mut();
        let off = offset as usize;

        self.0.writes.set(self.0.writes.get() + 1);
        if data.len() < off + buf.len() {
            data.resize(off + buf.len(), 0);
        }
        data[off..off + buf.len()].copy_from_slice(buf);
        Ok(())
    }

    async fn fallocate(&self, offset: u64, len: usize, _flags: u32) -> Qcow2Result<()> {
        let mut data = self.0.data.borrow_mut();
        let off = offset as usize;

        self.0.fallocates.set(self.0.fallocates.get() + 1);
        if data.len() < off + len {
            data.resize(off + len, 0);
        }
        data[off..off + len].fill(0);
        Ok(())
    }

    async fn fsync(&self, _offset: u64, _len: usize, _flags: u32) -> Qcow2Result<()> {
        Ok(())
    }
}

/// `imgs[0]` is the top image, the last one is the base of the chain. The
/// top image is opened read-write, all the others as read-only backing
/// devices.
async fn open_chain(imgs: &[&MemImg]) -> Qcow2Dev<MemIo> {
    let mut dev: Option<Qcow2Dev<MemIo>> = None;

    for (idx, img) in imgs.iter().enumerate().rev() {
        let mut params = Qcow2DevParams::new(9, None, None, false, false);
        if idx != 0 {
            params.mark_backing_dev(Some(true));
        }

        let name = format!("img{idx}.qcow2");
        let (mut this, back) = qcow2_alloc_dev(Path::new(&name), MemIo((*img).clone()), &params)
            .await
            .unwrap();
        assert_eq!(back.is_some(), idx + 1 != imgs.len());
        if let Some(b) = dev.take() {
            this.set_backing_dev(Box::new(b));
        }
        dev = Some(this);
    }

    let dev = dev.unwrap();
    dev.qcow2_prep_io().await.unwrap();
    dev
}

fn pattern(tag: u8, len: usize) -> Qcow2IoBuf<u8> {
    let mut buf = Qcow2IoBuf::<u8>::new(len);
    for (i, b) in buf.iter_mut().enumerate() {
        *b = tag ^ (i % 251) as u8;
    }
    buf
}

async fn read_cluster(dev: &Qcow2Dev<MemIo>, cluster: u64) -> Vec<u8> {
    let mut buf = Qcow2IoBuf::<u8>::new(CLUSTER_SIZE);
    buf.zero_buf();
    let n = dev
        .read_at(&mut buf, cluster << CLUSTER_BITS)
        .await
        .unwrap();
    assert_eq!(n, CLUSTER_SIZE);
    buf.to_vec()
}

// SIDE FINDING (not the seeded change): fails on the UNMODIFIED tree too.
// do_write_cow() writes the l2 slice straight to a still "new" l2 cluster and
// marks it clean; one later ordinary flush of another dirty slice of the same
// l2 cluster zeroes (fallocate) the whole cluster first and so wipes the clean
// slice on disk: the COW mapping of cluster 100 is lost after flush + reopen.
#[test]
fn side_finding_cow_mapping_lost_in_new_l2_cluster() {
    let rt = tokio::runtime::Builder::new_current_thread()
        .enable_all()
        .build()
        .unwrap();
    rt.block_on(async move {
        let size = 16u64 << 20;
        let base = MemImg::new_qcow2(size, None);
        let top = MemImg::new_qcow2(size, Some("img1.qcow2"));
        async fn open(imgs: &[&MemImg]) -> Qcow2Dev<MemIo> {
            let mut dev: Option<Qcow2Dev<MemIo>> = None;
            for (idx, img) in imgs.iter().enumerate().rev() {
                // 512-byte l2 slices: 64 entries each
                let mut params = Qcow2DevParams::new(9, None, Some((9, 4096)), false, false);
                if idx != 0 {
                    params.mark_backing_dev(Some(true));
                }
                let name = format!("img{idx}.qcow2");
                let (mut this, _b) =
                    qcow2_alloc_dev(Path::new(&name), MemIo((*img).clone()), &params)
                        .await
                        .unwrap();
                if let Some(b) = dev.take() {
                    this.set_backing_dev(Box::new(b));
                }
                dev = Some(this);
            }
            let dev = dev.unwrap();
            dev.qcow2_prep_io().await.unwrap();
            dev
        }
        let patch = pattern(0x77, 512);
        {
            let dev = open(&[&top, &base]).await;
            dev.write_at(&patch, 0).await.unwrap(); // COW, slice 0
            dev.write_at(&patch, 100 << CLUSTER_BITS).await.unwrap(); // COW, slice 1
            dev.discard(0, CLUSTER_SIZE as u64).await.unwrap(); // dirties slice 0
            dev.flush_meta().await.unwrap();
            let c = read_cluster(&dev, 100).await;
            assert!(c[..512] == patch[..]);
        }
        {
            let dev = open(&[&top, &base]).await;
            let c = read_cluster(&dev, 100).await;
            assert!(c[..512] == patch[..], "lost after reopen");
        }
    });
}
